"""C14: an exception raised by the remote expression is replaced by TimeoutError when it has `.code == 4`.

Property C14: "Evaluating a lazy expression on a server through a client returns
the same value, or raises the same exception type and message, as evaluating it
locally".

CourierClient.get_result / async_get_result re-raise the exception shipped by
the server from `_result_or_exception(...)` *inside* the try block whose handler
is meant for transport errors:

    try:
      return self._result_or_exception(future.result())
    except Exception as e:
      if is_timeout(e):            # getattr(e, 'code', 0) == 4
        if self.is_alive:
          raise TimeoutError(f'Try longer timeout on {self}') from e

so the duck-typed DEADLINE_EXCEEDED test is applied to the *application's*
exception. Every exception with an attribute code == 4 is turned into a
"retriable" TimeoutError with an unrelated message, e.g.
xml.etree.ElementTree.ParseError for the most common malformed-XML error
("not well-formed (invalid token)" is expat error code 4), or any user exception
that carries a numeric code. (Callers such as the worker pool retry on
TimeoutError, so a deterministic data error is retried as if it were a timeout.)
The call neither timed out (no call_timeout is exceeded) nor did the worker die.

Exit code 1 when the defect is present.
"""
import asyncio
import os
import sys
import xml.etree.ElementTree as ET

import hunt_common  # noqa: F401  (puts the courier stub on sys.path)
from absl import logging as alog

alog.set_verbosity(alog.FATAL)

import hunt_mod
from ml_metrics._src.chainables import courier_server
from ml_metrics._src.chainables import lazy_fns
from ml_metrics._src.utils import courier_utils

trace = lazy_fns.trace


def outcome(fn):
  try:
    return ('value', fn())
  except Exception as e:  # pylint: disable=broad-exception-caught
    return (type(e).__name__, str(e))


def main():
  server = courier_server.CourierServer('hunt3_server')
  server.start()
  client = courier_utils.CourierClient('hunt3_server', call_timeout=30)
  cases = {
      'malformed xml (expat code 4)': trace(ET.fromstring)('<a>&</a>'),
      'malformed xml (expat code 3)': trace(ET.fromstring)(''),
      'user exception with code=4': trace(hunt_mod.check_quota)(7),
  }
  defects = []
  for name, lazy in cases.items():
    local = outcome(lambda: lazy_fns.maybe_make(lazy))
    remote = outcome(lambda: client.get_result(lazy))
    aremote = outcome(lambda: asyncio.run(client.async_get_result(lazy)))
    print(f'{name}:')
    print(f'   local        : {local}')
    print(f'   get_result   : {remote}')
    print(f'   async_get_res: {aremote}')
    for how, got in (('get_result', remote), ('async_get_result', aremote)):
      if got != local:
        defects.append(f'{name}: {how} raised {got[0]} instead of {local[0]}')
  server.stop().join()
  if defects:
    print('DEFECT:')
    for d in defects:
      print('  -', d)
    return 1
  print('OK: remote evaluation raises what local evaluation raises')
  return 0


if __name__ == '__main__':
  rc = main()
  sys.stdout.flush()
  os._exit(rc)
