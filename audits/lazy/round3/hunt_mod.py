"""Importable helpers (pickled by reference) for the hunt scripts."""
import collections
import time

calls = collections.Counter()


class Box:

  def __init__(self, k):
    self.k = k


def make(k):
  calls[k] += 1
  return Box(k)


def slow_gen(n, dt):
  for i in range(n):
    time.sleep(dt)
    yield i


def sleep_and_return(dt, value):
  time.sleep(dt)
  return value


class QuotaError(Exception):
  """An application error that carries a numeric `code`, like many do."""

  def __init__(self, msg, code):
    super().__init__(msg, code)
    self.code = code


def check_quota(used):
  raise QuotaError(f'quota exceeded: {used}', 4)
