"""Minimal in-process stand-in for DeepMind's courier (hunt stub)."""
from __future__ import annotations

import itertools
import pickle
import threading
import time
from concurrent import futures

_servers: dict[str, 'Server'] = {}
_lock = threading.Lock()
_ports = itertools.count(20000)


class StatusNotOk(RuntimeError):

  def __init__(self, msg, code=2):
    super().__init__(msg)
    self.code = code


class Server:

  def __init__(self, name=None, port=None, thread_pool_size=16):
    self._name = name
    self._port = port or next(_ports)
    self._handlers = {}
    self._started = False
    self._pool = futures.ThreadPoolExecutor(thread_pool_size)

  @property
  def address(self):
    return self._name or f'localhost:{self._port}'

  @property
  def has_started(self):
    return self._started

  def Bind(self, name, fn):
    self._handlers[name] = fn

  def Start(self):
    with _lock:
      _servers[self.address] = self
    self._started = True

  def Stop(self):
    self._started = False
    with _lock:
      if _servers.get(self.address) is self:
        del _servers[self.address]

  def Join(self):
    pass


def _roundtrip(x):
  return pickle.loads(pickle.dumps(x))


class _Futures:

  def __init__(self, client):
    self._client = client

  def __getattr__(self, method):
    if method.startswith('__'):
      raise AttributeError(method)

    def call(*args, **kwargs):
      return self._client._call(method, args, kwargs)

    return call


class Client:

  def __init__(self, address, call_timeout=None, **unused):
    self.address = address
    self._timeout = call_timeout or None
    self.futures = _Futures(self)

  def _call(self, method, args, kwargs):
    result = futures.Future()
    args, kwargs = _roundtrip((args, kwargs))
    deadline = time.time() + self._timeout if self._timeout else None

    def expire():
      if not result.done():
        try:
          result.set_exception(StatusNotOk('Deadline Exceeded', code=4))
        except futures.InvalidStateError:
          pass

    timer = None
    if self._timeout:
      timer = threading.Timer(self._timeout, expire)
      timer.daemon = True
      timer.start()

    def run():
      # wait for the server to be reachable (wait_for_ready semantics).
      while True:
        if result.done():
          return
        with _lock:
          server = _servers.get(self.address)
        if server is not None and server.has_started:
          break
        if deadline and time.time() > deadline:
          return
        time.sleep(0.005)

      def handle():
        try:
          fn = server._handlers[method]
          out = _roundtrip(fn(*args, **kwargs))
          exc = None
        except BaseException as e:  # pylint: disable=broad-exception-caught
          out = None
          exc = StatusNotOk(
              f'Python exception was raised on the server: {type(e).__name__}:'
              f' {e}',
              code=2,
          )
        try:
          if exc is None:
            result.set_result(out)
          else:
            result.set_exception(exc)
        except futures.InvalidStateError:
          pass
        if timer is not None:
          timer.cancel()

      try:
        server._pool.submit(handle)
      except RuntimeError as e:
        try:
          result.set_exception(StatusNotOk(f'unavailable: {e}', code=14))
        except futures.InvalidStateError:
          pass

    threading.Thread(target=run, daemon=True).start()
    return result

  def __getattr__(self, method):
    if method.startswith('_'):
      raise AttributeError(method)

    def call(*args, **kwargs):
      return self._call(method, args, kwargs).result()

    return call
