"""hunt_3: C14 - a *value* that happens to be an exception instance is raised by
the client instead of being returned; a remote iterator raises / is silently
truncated when the underlying iterator yields exception instances.

Property text violated: "Evaluating a lazy expression on a server through a
client returns the same value, or raises the same exception type and message, as
evaluating it locally" and "remote iterators ... yield exactly the underlying
elements in order and signal exhaustion once".

Cause: CourierServer._maybe_make (courier_server.py:216-226) ships a raised
exception as the pickled *result*, and CourierClient._result_or_exception
(courier_utils.py:659-665) re-raises whenever the unpickled result
`isinstance(result, Exception)`. A returned exception and a raised exception are
therefore indistinguishable on the wire. Functions that collect errors as
values (`[... , err]`[i], `future.exception()`, `ValueError(...)` constructors,
error columns of a dataset) behave differently remotely, and
RemoteIterator.__next__ (courier_utils.py:365-368), which is one get_result per
element, turns a StopIteration *element* into the end of the stream (all later
elements are dropped without any error).
"""
import os
import sys

sys.path.insert(0, os.path.dirname(os.path.abspath(__file__)))


def first_error(results):
  """Returns (not raises) the first error found in `results`."""
  return next((r for r in results if isinstance(r, Exception)), None)


def stream():
  yield 1
  yield ValueError('recorded as a value')
  yield 3
  yield StopIteration('also just a value')
  yield 5


def outcome(fn):
  try:
    return ('returned', repr(fn()))
  except Exception as e:  # pylint: disable=broad-exception-caught
    return ('raised', repr(e))


def drain(it):
  out = []
  while True:
    try:
      out.append(repr(next(it)))
    except StopIteration:
      out.append('<exhausted>')
      return out
    except Exception as e:  # pylint: disable=broad-exception-caught
      out.append(f'<raised {e!r}>')


def main():
  from absl import logging as alog

  alog.set_verbosity(alog.FATAL)
  import hunt_stub  # pylint: disable=unused-import
  from ml_metrics._src.chainables import courier_server
  from ml_metrics._src.chainables import lazy_fns
  from ml_metrics._src.utils import courier_utils
  import hunt_3 as me

  trace, maybe_make = lazy_fns.trace, lazy_fns.maybe_make
  server = courier_server.CourierServer('hunt3')
  server.start()
  client = courier_utils.CourierClient('hunt3', call_timeout=10)
  bad = False

  exprs = {
      'ValueError("boom") constructor': trace(ValueError)('boom'),
      'first_error([1, KeyError("k")])': trace(me.first_error)(
          [1, KeyError('k')]
      ),
  }
  for name, expr in exprs.items():
    local = outcome(lambda e=expr: maybe_make(e))
    remote = outcome(lambda e=expr: client.get_result(e))
    print(f'{name}:\n  local : {local}\n  remote: {remote}')
    bad |= local != remote

  local_elems = drain(iter(maybe_make(trace(me.stream)())))
  remote_iterable = client.get_result(trace(me.stream)(lazy_result_=True))
  remote_elems = drain(iter(remote_iterable))
  print('iterating stream():')
  print('  local :', local_elems)
  print('  remote:', remote_elems)
  bad |= local_elems != remote_elems

  print('DEFECT PRESENT' if bad else 'ok')
  return 1 if bad else 0


if __name__ == '__main__':
  code = main()
  sys.stdout.flush()
  os._exit(code)
