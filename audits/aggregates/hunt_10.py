# Property C07: values are right "for every ... k-list"; the function API returns
# a "tuple with metric value(s)" for the given k_list.
#
# Both top-k implementations silently reorder the caller's k_list and one of
# them also drops entries, while the result is a bare positional array:
#  * retrieval.TopKRetrieval.add sorts k_list (retrieval.py:474), so for
#    k_list=[3, 1] result[0] is the value @1, not @3;
#  * classification._apply_vocab_at_k turns k_list into a set and yields in
#    ascending order (classification.py:684-695): k_list=[3, 1] is answered in
#    the order [1, 3] and k_list=[1, 1, 3] yields only 2 values for 3 requested
#    ks (the retrieval API yields 3 for the same request).
# A caller doing dict(zip(k_list, result)) gets precision@3 filed under k=1.
import sys
import warnings

import numpy as np

warnings.simplefilter('ignore')
from ml_metrics._src.metrics import classification  # pylint: disable=g-import-not-at-top
from ml_metrics._src.metrics import retrieval  # pylint: disable=g-import-not-at-top

y_true = [['a'], ['b'], ['c', 'a']]
y_pred = [['a', 'b', 'c'], ['c', 'b', 'a'], ['b', 'a', 'c']]


def cls(k_list):
  return np.asarray(
      classification.precision(
          y_true,
          y_pred,
          input_type='multiclass-multioutput',
          average='micro',
          k_list=k_list,
      )
  ).round(4).tolist()


def ret(k_list):
  return np.asarray(retrieval.precision(y_true, y_pred, k_list=k_list)).round(4).tolist()


bad = False
for name, fn in (('classification.precision', cls), ('retrieval.precision', ret)):
  at1, at3 = fn([1])[0], fn([3])[0]
  print(f'{name}: @1={at1} @3={at3}')
  for k_list, want in (([1, 3], [at1, at3]), ([3, 1], [at3, at1]), ([1, 1, 3], [at1, at1, at3])):
    got = fn(k_list)
    ok = got == want
    bad |= not ok
    print(f'   k_list={k_list}: got {got}, expected {want}{"" if ok else "   <-- WRONG"}')

if bad:
  print('DEFECT: results are not aligned with the requested k_list.')
  sys.exit(1)
print('OK')
sys.exit(0)
