# Property C07: rolling statistics equal their textbook definition "up to
# floating-point rounding", rates stay in their mathematical range, for every
# input encoding.
#
# RRegression (Pearson correlation, rolling_stats.py:679-756) accumulates the raw
# moments sum(x), sum(x**2), sum(x*y) in the dtype of the input and computes
#   (sum_xy - sum_x*sum_y/n) / sqrt(sum_xx - sum_x**2/n) / sqrt(sum_yy - ...)
#  * Catastrophic cancellation: for a feature with a large mean compared with its
#    spread (timestamps, ids, prices in cents...) the result is off in the first
#    digit (0.50 instead of 0.70 for mean 1e8, std 1), i.e. far beyond rounding;
#    the error also depends on how the data is batched.
#  * `x**2` / `x*y` are evaluated in the input's integer dtype before np.sum
#    upcasts, so int32 features of magnitude > 46341 overflow and the
#    correlation of perfectly correlated data comes out as NaN / garbage.
# The sibling MeanAndVariance uses a stable pairwise formula, RRegression does not.
import sys
import warnings

import numpy as np

warnings.simplefilter('ignore')
from ml_metrics._src.aggregates import rolling_stats  # pylint: disable=g-import-not-at-top

bad = False
rng = np.random.default_rng(0)
noise_x, noise_y = rng.normal(size=1000), rng.normal(size=1000)
for offset in (0.0, 1e6, 1e8):
  x = offset + noise_x
  y = noise_x + noise_y
  want = np.corrcoef(x, y)[0, 1]
  one = rolling_stats.RRegression().add(x, y).result()
  batched = rolling_stats.RRegression()
  for i in range(0, 1000, 100):
    batched.add(x[i : i + 100], y[i : i + 100])
  batched = batched.result()
  ok = abs(one - want) < 1e-6 and abs(batched - want) < 1e-6
  bad |= not ok
  print(
      f'mean(x)={offset:9.0e}: numpy corrcoef={want:.6f} one batch={one:.6f}'
      f' ten batches={batched:.6f}{"" if ok else "   <-- WRONG"}'
  )

x = np.array([100_000, 200_000, 300_000, 400_000], dtype=np.int32)
y = np.array([1.0, 2.0, 3.0, 4.0])
got = rolling_stats.RRegression().add(x, y).result()
got64 = rolling_stats.RRegression().add(x.astype(np.int64), y).result()
print(f'perfectly correlated data: int32 x -> {got}, same values as int64 -> {got64} (expected 1.0)')
bad |= not (np.isfinite(got) and abs(got - 1.0) < 1e-9)

if bad:
  print('DEFECT: RRegression is numerically wrong for offset data / int32 features.')
  sys.exit(1)
print('OK')
sys.exit(0)
