# Property C07 / C01: metric values follow their definition "with the documented
# zero-denominator conventions" for ragged rankings; any batching of a dataset
# must work.
#
# The library's zero-denominator convention is math_utils.safe_divide (x/0 -> 0;
# used by every classification rate and by retrieval's own f1_score), but the
# per-row retrieval formulas divide with a bare `/` (retrieval.py:92-128,143-199).
# One example with an empty prediction list (the retriever returned nothing) has
# precision 0/0 = NaN, and because rows are summed into a MeanState that single
# row turns precision / ppv / f1 / false_discovery_rate / fowlkes_mallows of the
# WHOLE dataset into NaN (same for an empty y_true row and recall / MAP / NDCG).
# If such examples end up alone in a batch, add() raises IndexError instead, so
# the outcome also depends on the batching.
import sys
import warnings

import numpy as np

warnings.simplefilter('ignore')
from ml_metrics._src.aggregates import retrieval  # pylint: disable=g-import-not-at-top

y_true = [['a'], ['b'], ['c'], ['d']]
y_pred = [['a', 'x'], ['y', 'b'], ['c', 'z'], []]  # last query retrieved nothing
METRICS = ['precision', 'f1_score', 'recall']
# Per-row precision@2 with the safe-divide convention: 1/2, 1/2, 1/2, 0.
want = {'precision': 0.375, 'recall': 0.75}

bad = False
m = retrieval.TopKRetrieval(k_list=[2], metrics=METRICS)
m.add(y_true, y_pred)
res = {str(k): float(np.asarray(v)[0]) for k, v in m.result().items()}
print('one batch           :', res)
bad |= not np.isclose(res['precision'], want['precision'])
bad |= np.isnan(res['f1_score'])

m = retrieval.TopKRetrieval(k_list=[2], metrics=METRICS)
try:
  m.add(y_true[:3], y_pred[:3])
  m.add(y_true[3:], y_pred[3:])
  res = {str(k): float(np.asarray(v)[0]) for k, v in m.result().items()}
  print('empty row in own batch:', res)
  bad |= not np.isclose(res['precision'], want['precision'])
except Exception as e:  # pylint: disable=broad-exception-caught
  print(f'empty row in own batch: RAISED {type(e).__name__}: {e}')
  bad = True

if bad:
  print('DEFECT: an empty ranking poisons (or crashes) the retrieval aggregates.')
  sys.exit(1)
print('OK')
sys.exit(0)
