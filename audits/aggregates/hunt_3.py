# Property C07: metric values equal their mathematical definition and "rates stay
# in their mathematical range".
#
# _matthews_correlation_coefficient (aggregates/classification.py:404-410)
# multiplies the four marginal counts (tp+fp)*(tp+fn)*(tn+fp)*(tn+fn) and
# tp*tn - fp*fn in the int64 dtype that the confusion-matrix counts have.  The
# product of four marginals overflows int64 as soon as the dataset has a bit more
# than ~100k examples ((5.5e4)**4 > 2**63), so for ordinary dataset sizes MCC
# either raises "Attempt to take sqrt of negative value" or silently returns a
# value outside [-1, 1].  The documented `dtype` argument ("dtype of the
# confusion matrix and all computations") is never used, so it is no workaround.
# The same happens for counts accumulated over many small batches.
import math
import sys
import warnings

import numpy as np

warnings.simplefilter('ignore')
from ml_metrics._src.aggregates import classification as agg  # pylint: disable=g-import-not-at-top
from ml_metrics._src.metrics import classification  # pylint: disable=g-import-not-at-top


def data(tp, fn, fp, tn):
  y_true = np.array([1] * (tp + fn) + [0] * (fp + tn))
  y_pred = np.array([1] * tp + [0] * fn + [1] * fp + [0] * tn)
  return y_true, y_pred


def expected(tp, fn, fp, tn):
  return (tp * tn - fp * fn) / math.sqrt(
      float(tp + fp) * (tp + fn) * (tn + fp) * (tn + fn)
  )


def attempt(fn):
  try:
    return float(fn())
  except Exception as e:  # pylint: disable=broad-exception-caught
    return f'RAISED {type(e).__name__}: {e}'


bad = False
for counts in (
    (7_500, 2_500, 2_500, 7_500),  # 20k examples: fine
    (45_000, 15_000, 15_000, 45_000),  # 120k examples
    (150_000, 50_000, 50_000, 150_000),  # 400k examples
):
  y_true, y_pred = data(*counts)
  want = expected(*counts)
  got = attempt(
      lambda: classification.matthews_correlation_coefficient(y_true, y_pred)
  )
  got_float = attempt(
      lambda: classification.matthews_correlation_coefficient(
          y_true, y_pred, dtype=float
      )
  )
  print(f'n={len(y_true):7d} expected={want:.4f} one-shot={got} with dtype=float={got_float}')
  for g in (got, got_float):
    if not (isinstance(g, float) and math.isclose(g, want, rel_tol=1e-9)):
      bad = True

# Same through the accumulator API with small batches.
fn = agg.ConfusionMatrixAggFn(metrics='matthews_correlation_coefficient')
y_true, y_pred = data(75, 25, 25, 75)
state = fn.create_state()
for _ in range(1000):  # 200k examples in batches of 200
  state = fn.update_state(state, y_true, y_pred)
got = attempt(lambda: fn.get_result(state))
print(f'1000 batches of 200: expected=0.5000 accumulated={got}')
if not (isinstance(got, float) and math.isclose(got, 0.5)):
  bad = True

if bad:
  print('DEFECT: MCC overflows int64 for realistic dataset sizes.')
  sys.exit(1)
print('OK')
sys.exit(0)
