# Property C07: the cross-entropy signal equals its textbook definition for every
# legal input.
#
# categorical_cross_entropy documents y_pred as probabilities "in [0., 1.]"
# (closed interval, signals/cross_entropy.py:55-57) and its test takes Keras'
# CategoricalCrossentropy as the reference.  It computes
# -sum(y_true * log(y_pred / sum(y_pred))) (cross_entropy.py:64) without the
# 0 * log(0) = 0 convention, so a zero probability on a class that is NOT the
# true class (it has weight 0 and must not contribute) turns the whole loss into
# NaN.  E.g. y_true=[1,0,0], y_pred=[0.8,0.2,0.0] must give -log(0.8)=0.2231 and a
# perfect one-hot prediction must give 0.
import math
import sys
import warnings

import numpy as np

warnings.simplefilter('ignore')
from ml_metrics._src.signals import cross_entropy  # pylint: disable=g-import-not-at-top


def reference(y_true, y_pred):
  y_pred = np.asarray(y_pred, dtype=float) / np.sum(y_pred)
  return -sum(t * math.log(p) for t, p in zip(y_true, y_pred) if t)


bad = False
for y_true, y_pred in (
    ([1, 0, 0], [0.7, 0.2, 0.1]),  # no zero: fine
    ([1, 0, 0], [0.8, 0.2, 0.0]),
    ([0, 1, 0], [0.0, 1.0, 0.0]),
):
  got = cross_entropy.categorical_cross_entropy(
      np.asarray(y_true), np.asarray(y_pred)
  )
  want = reference(y_true, y_pred)
  ok = not math.isnan(got) and math.isclose(got, want, abs_tol=1e-9)
  bad |= not ok
  print(f'y_true={y_true} y_pred={y_pred}: got {got}, expected {want:.6f}{"" if ok else "   <-- WRONG"}')

if bad:
  print('DEFECT: categorical_cross_entropy is NaN when an irrelevant class has probability 0.')
  sys.exit(1)
print('OK')
sys.exit(0)
