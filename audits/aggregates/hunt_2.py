# Property C01 / C11: feeding a dataset in any number of batches / shards must
# give the one-batch result, and merging must be order-insensitive.
#
# TopKRetrieval.add() shortens the k_list of every batch to the longest
# prediction row of THAT batch (retrieval.py:497-499), so the per-metric
# MeanState totals of two batches (or two shards) have different lengths when
# the batches' longest rankings differ and are shorter than max(k_list).
# MeanState.merge() then does `self.total += other.total` (utils.py:36):
#   * lengths 2 and 3  -> ValueError in add()/merge() for a perfectly legal
#     ragged dataset that works when fed as one batch;
#   * lengths 1 and 3  -> works when the long batch comes first (broadcast) but
#     raises when the short batch comes first: merge is order-sensitive.
import sys
import warnings

import numpy as np

warnings.simplefilter('ignore')
from ml_metrics._src.aggregates import retrieval  # pylint: disable=g-import-not-at-top

K_LIST = [1, 2, 3]
short_true, short_pred = [['a', 'b']], [['a', 'q']]  # 2 predictions
long_true, long_pred = [['x', 'y']], [['p', 'x', 'y']]  # 3 predictions
tiny_true, tiny_pred = [['m']], [['m']]  # 1 prediction


def new():
  return retrieval.TopKRetrieval(k_list=K_LIST, metrics=['precision', 'recall'])


def fmt(res):
  return {str(k): np.round(np.asarray(v, dtype=float), 4).tolist() for k, v in res.items()}


def attempt(label, fn):
  try:
    res = fmt(fn())
    print(f'{label}: {res}')
    return res
  except Exception as e:  # pylint: disable=broad-exception-caught
    print(f'{label}: RAISED {type(e).__name__}: {e}')
    return None


def one_batch(trues, preds):
  m = new()
  m.add(sum(trues, []), sum(preds, []))
  return m.result()


def batches(trues, preds):
  m = new()
  for t, p in zip(trues, preds):
    m.add(t, p)
  return m.result()


def shards(trues, preds):
  total = new()
  for t, p in zip(trues, preds):
    s = new()
    s.add(t, p)
    total.merge(s)
  return total.result()


bad = False
print('--- rankings of length 2 and 3, k_list=[1,2,3]')
ref = attempt('one batch          ', lambda: one_batch([short_true, long_true], [short_pred, long_pred]))
for label, fn in (
    ('two batches        ', batches),
    ('two merged shards  ', shards),
):
  got = attempt(label, lambda fn=fn: fn([short_true, long_true], [short_pred, long_pred]))
  bad |= got != ref

print('--- rankings of length 1 and 3: the order of the merge decides')
ref = attempt('one batch          ', lambda: one_batch([tiny_true, long_true], [tiny_pred, long_pred]))
a = attempt('shards long, tiny  ', lambda: shards([long_true, tiny_true], [long_pred, tiny_pred]))
b = attempt('shards tiny, long  ', lambda: shards([tiny_true, long_true], [tiny_pred, long_pred]))
bad |= a != ref or b != ref

if bad:
  print('DEFECT: ragged rankings cannot be batched/sharded freely in TopKRetrieval.')
  sys.exit(1)
print('OK')
sys.exit(0)
