# Property C07: every retrieval metric returns its textbook value "for every input
# encoding"; the one-shot API agrees with the definition.
#
# TopKRetrieval accepts input_type='multiclass' (documented in
# aggregates/types.py as "1D array of class identifiers, e.g, ['a', 'b'] or
# [1, 29, 12]") but `input_type` is an InitVar that is validated in
# __post_init__ (retrieval.py:450-455) and then never used: add() always treats
# every element of y_true / y_pred as a *sequence* of labels
# (len(row), y_pred_row[i] in y_true_row; retrieval.py:475-484).  So
#   * string class ids are compared character by character (substring test):
#     'car' vs 'cat' scores precision 2/3 instead of 0, and 'tac' vs 'cat'
#     scores recall 1.0;
#   * integer class ids raise TypeError: object of type 'int' has no len().
# The shipped test only uses single-character labels, which hides this.
import sys
import warnings

import numpy as np

warnings.simplefilter('ignore')
from ml_metrics._src.metrics import retrieval  # pylint: disable=g-import-not-at-top

bad = False


def check(label, fn, want):
  global bad
  try:
    got = np.asarray(fn(), dtype=float).tolist()
  except Exception as e:  # pylint: disable=broad-exception-caught
    got = f'RAISED {type(e).__name__}: {e}'
  ok = got == want
  bad |= not ok
  print(f'{label}: got {got}, expected {want}{"" if ok else "   <-- WRONG"}')


y_true = ['cat', 'dog']
y_pred = ['car', 'dog']
# One of the two examples is classified correctly: precision = recall = 0.5.
check(
    "precision(multiclass, ['cat','dog'] vs ['car','dog'])",
    lambda: retrieval.precision(y_true, y_pred, input_type='multiclass'),
    [0.5],
)
check(
    'same data as multiclass-multioutput singletons   ',
    lambda: retrieval.precision(
        [[t] for t in y_true],
        [[p] for p in y_pred],
        input_type='multiclass-multioutput',
    ),
    [0.5],
)
check(
    "recall(multiclass, ['cat','dog'] vs ['tac','god'])  ",
    lambda: retrieval.recall(
        ['cat', 'dog'], ['tac', 'god'], input_type='multiclass'
    ),
    [0.0],
)
check(
    'precision(multiclass, [1, 29, 12] vs [1, 29, 7])     ',
    lambda: retrieval.precision(
        [1, 29, 12], [1, 29, 7], k_list=[1], input_type='multiclass'
    ),
    [2 / 3],
)

if bad:
  print("DEFECT: TopKRetrieval ignores input_type='multiclass'.")
  sys.exit(1)
print('OK')
sys.exit(0)
