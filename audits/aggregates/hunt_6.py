# Property C01: feeding a dataset in any number of batches yields the one-batch
# result; "a metric value for one example never depends on which other examples
# happen to share its batch".
#
# For input_type='multiclass'(-multioutput) without an explicit `vocab` the
# confusion matrix of every batch is built on a vocabulary deduced from THAT
# batch only (aggregates/classification.py:546, 725: `vocab or get_vocab(...)`)
# and update_state() then adds the per-batch matrices element-wise
# (classification.py:637-645).  Consequences on the plain accumulator API
# (create_state / update_state / get_result, no distribution involved):
#   * average='macro': the per-class counts of different batches are added
#     although index i means a different class in every batch (and a 1-class
#     batch is silently broadcast over all classes).  merge_states() refuses this
#     configuration with "Global vocab is needed", update_state() silently
#     returns wrong numbers.
#   * average='micro' and average='samples': the number of true negatives of an
#     example is (#classes seen in its batch - ...), so every tn based rate
#     (binary_accuracy, specificity, fpr, npv, ...) depends on the batch mates.
#     Nothing documents or guards this (the `vocab` doc only talks about macro).
import sys
import warnings

import numpy as np

warnings.simplefilter('ignore')
from ml_metrics._src.aggregates import classification  # pylint: disable=g-import-not-at-top

y_true = ['a', 'a', 'b', 'c', 'c', 'c']
y_pred = ['a', 'b', 'b', 'c', 'c', 'a']
vocab = {'a': 0, 'b': 1, 'c': 2}
bad = False


def feed(fn, cuts):
  state = fn.create_state()
  for lo, hi in zip([0] + cuts, cuts + [len(y_true)]):
    state = fn.update_state(state, y_true[lo:hi], y_pred[lo:hi])
  res = fn.get_result(state)
  return {str(k): round(float(v), 4) for k, v in res.items()}


def compare(title, make_fn, metrics):
  global bad
  print(f'--- {title}')
  ref = feed(make_fn(metrics=metrics, vocab=vocab), [])
  print(f'  reference (global vocab, one batch): {ref}')
  for cuts in ([], [3], [1], [2, 4]):
    try:
      got = feed(make_fn(metrics=metrics), cuts)
    except Exception as e:  # pylint: disable=broad-exception-caught
      got = f'RAISED {type(e).__name__}: {e}'
    flag = '' if got == ref else '   <-- differs'
    # Raising would be acceptable (that is what merge_states does), silently
    # returning another number is not.
    if got != ref and not (isinstance(got, str) and got.startswith('RAISED')):
      bad = True
    print(f'  no vocab, batches cut at {str(cuts):7s}: {got}{flag}')


compare(
    'macro precision/recall',
    lambda **kw: classification.ConfusionMatrixAggFn(
        input_type='multiclass', average='macro', **kw
    ),
    ['precision', 'recall'],
)
compare(
    'micro tn-based rates',
    lambda **kw: classification.ConfusionMatrixAggFn(
        input_type='multiclass', average='micro', **kw
    ),
    ['binary_accuracy', 'specificity'],
)
compare(
    'samples-average tn-based rates',
    lambda **kw: classification.SamplewiseConfusionMatrixAggFn(
        input_type='multiclass', **kw
    ),
    ['binary_accuracy', 'specificity'],
)

try:
  classification.ConfusionMatrixAggFn(
      input_type='multiclass', average='macro'
  ).merge_states([None])
except ValueError as e:
  print('for comparison, merge_states() without vocab raises:', e)

if bad:
  print('DEFECT: vocabulary-free multiclass confusion matrices are batch dependent.')
  sys.exit(1)
print('OK')
sys.exit(0)
