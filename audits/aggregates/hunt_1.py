# Property C01 (and C07): "A metric value for one example never depends on which
# other examples happen to share its batch" / values equal textbook definitions.
#
# TopKRetrieval.add() truncates the requested k_list to the length of the
# LONGEST prediction row of the current batch (retrieval.py:477-499).  Per-row
# metrics whose formula depends on k itself (ndcg_score and
# mean_average_precision via min(k, |y_true|); threat_score via "+ k") are then
# evaluated at a different k depending on the batch mates of the row.  So the
# very same dataset gives different NDCG@5 / MAP@5 / threat_score@5 depending on
# how it is cut into batches, and threat_score disagrees with its alias
# intersection_over_union (both are tp / (tp + fp + fn)) on ragged rankings.
import math
import sys
import warnings

import numpy as np

warnings.simplefilter('ignore')
from ml_metrics._src.aggregates import retrieval  # pylint: disable=g-import-not-at-top

K = 5
y_true = [['a', 'b', 'c', 'd'], ['x', 'y', 'z', 'w', 'v']]
y_pred = [['a', 'q'], ['x', 'y', 'p', 'z', 'w']]  # row 0 has only 2 predictions
METRICS = [
    'ndcg_score',
    'mean_average_precision',
    'threat_score',
    'intersection_over_union',
]


def textbook(t, p, k):
  rel = [int(x in t) for x in p[:k]]
  tp = sum(rel)
  dcg = sum(r / math.log2(i + 2) for i, r in enumerate(rel))
  idcg = sum(1 / math.log2(i + 2) for i in range(min(k, len(t))))
  ap = sum(sum(rel[: i + 1]) / (i + 1) * rel[i] for i in range(len(rel))) / min(
      k, len(t)
  )
  iou = tp / (len(rel) + len(t) - tp)
  return {
      'ndcg_score': dcg / idcg,
      'mean_average_precision': ap,
      'threat_score': iou,
      'intersection_over_union': iou,
  }


expected = {
    m: float(np.mean([textbook(t, p, K)[m] for t, p in zip(y_true, y_pred)]))
    for m in METRICS
}

one = retrieval.TopKRetrieval(k_list=[K], metrics=METRICS)
one.add(y_true, y_pred)
one = {str(k): float(v[0]) for k, v in one.result().items()}

two = retrieval.TopKRetrieval(k_list=[K], metrics=METRICS)
two.add(y_true[:1], y_pred[:1])
two.add(y_true[1:], y_pred[1:])
two = {str(k): float(v[0]) for k, v in two.result().items()}

sharded = retrieval.TopKRetrieval(k_list=[K], metrics=METRICS)
for t, p in zip(y_true, y_pred):
  shard = retrieval.TopKRetrieval(k_list=[K], metrics=METRICS)
  shard.add([t], [p])
  sharded.merge(shard)
sharded = {str(k): float(v[0]) for k, v in sharded.result().items()}

bad = False
print(f'{"metric@5":26s} {"textbook":>9s} {"1 batch":>9s} {"2 batches":>9s} {"2 shards":>9s}')
for m in METRICS:
  row = (expected[m], one[m], two[m], sharded[m])
  print(f'{m:26s} ' + ' '.join(f'{v:9.4f}' for v in row))
  if not np.allclose(row, expected[m]):
    bad = True
if not math.isclose(one['threat_score'], one['intersection_over_union']):
  print(
      'alias mismatch in one batch: threat_score',
      one['threat_score'],
      '!= intersection_over_union',
      one['intersection_over_union'],
  )
  bad = True

if bad:
  print('DEFECT: TopKRetrieval values depend on the batch composition.')
  sys.exit(1)
print('OK')
sys.exit(0)
