"""FixedSizeSample: add() after merge() crashes / stops sampling (C11, also C01).

Property C11 ("all interleavings of add/merge/result calls") and C01 (the
reservoir sampler must keep size, membership and reviewed-count under any
sharding).

FixedSizeSample.merge() does `self._logw += other.logw`.  `_logw` is the log of
the Algorithm-L acceptance weight W (about max_size / num_samples_reviewed for
one stream).  Adding the logs multiplies the weights of all merged shards, so W
collapses exponentially with the number of merged shards instead of following
the number of reviewed samples.  Once exp(_logw) < 1.1e-16 (five shards of 1e6
samples with max_size=100, or ~100 tiny shards with max_size=1),
`np.log(1 - w)` is 0, the skip length is -inf, its cast to int is INT64_MIN and
the next add() raises IndexError.  (Before that point the merged sampler
already practically never admits a new sample.)

Expected: add() after merge() works, keeps len(result) == max_size and counts
the reviewed samples.
"""
import sys
import warnings

import numpy as np
from ml_metrics._src.aggregates import rolling_stats

warnings.simplefilter('ignore')


def scenario(max_size, num_shards, shard_size):
  acc = rolling_stats.FixedSizeSample(max_size, seed=0)
  total = 0
  for s in range(num_shards):
    shard = rolling_stats.FixedSizeSample(max_size, seed=0)
    shard.add(np.arange(shard_size) + s * shard_size)
    acc.merge(shard)
    total += shard_size
  print(
      f'max_size={max_size}: merged {num_shards} shards of {shard_size}'
      f' samples, logw={acc.logw:.2f}, exp(logw)={np.exp(acc.logw):.3g}'
      f' (max_size/reviewed={max_size / total:.3g})'
  )
  try:
    acc.add(np.arange(1000) + total)
  except Exception as e:  # pylint: disable=broad-exception-caught
    print(f'  add() after the merges raised {type(e).__name__}: {e}')
    return False
  ok = (
      len(acc.result()) == max_size
      and acc.num_samples_reviewed == total + 1000
  )
  print(f'  add() ok={ok}, reviewed={acc.num_samples_reviewed}')
  return ok


def main():
  results = [
      scenario(max_size=100, num_shards=5, shard_size=1_000_000),
      scenario(max_size=1, num_shards=100, shard_size=1),
      scenario(max_size=10, num_shards=2000, shard_size=1),
  ]
  if not all(results):
    print('DEFECT: FixedSizeSample.add() fails after merging shards.')
    return 1
  print('OK')
  return 0


if __name__ == '__main__':
  sys.exit(main())
