"""merge_states() demands a vocab for macro average on inputs without vocab (C01).

Property C01: for all metric configurations (averaging mode ...) sharding and
merging gives the result of one accumulator.

ConfusionMatrixAggFn.merge_states() raises `ValueError: Global vocab is needed
for "macro" average` whenever average is macro and `vocab is None`, without
looking at the input type.  A vocabulary only exists for 'multiclass' and
'multiclass-multioutput' inputs; for input_type='binary' (columns: positive /
negative) and 'multiclass-indicator' (columns given by the caller) the class
columns are fixed, `vocab` is never read, and update_state() over several
batches works fine - but two shards can not be merged unless a meaningless
dummy vocab is passed.

Expected: merge_states() only requires the vocab for the two input types that
use one; macro recall of two merged shards == macro recall of one batch.
"""
import sys

import numpy as np
from ml_metrics._src.metrics import classification as metrics_classification

CASES = {
    'binary': (
        [1, 0, 1, 1, 0, 0, 1, 0],
        [1, 1, 0, 1, 0, 1, 1, 0],
    ),
    'multiclass-indicator': (
        np.array([[1, 0, 0], [0, 1, 0], [0, 0, 1], [0, 1, 0], [1, 0, 0]]),
        np.array([[1, 0, 0], [0, 0, 1], [0, 0, 1], [0, 1, 0], [0, 1, 0]]),
    ),
}


def main():
  bad = False
  for input_type, (y_true, y_pred) in CASES.items():
    agg_fn = metrics_classification.ClassificationAggFn(
        'recall', input_type=input_type, average='macro'
    )
    one_batch = agg_fn(y_true, y_pred)
    cut = 3
    states = [
        agg_fn.update_state(agg_fn.create_state(), y_true[:cut], y_pred[:cut]),
        agg_fn.update_state(agg_fn.create_state(), y_true[cut:], y_pred[cut:]),
    ]
    try:
      merged = agg_fn.get_result(agg_fn.merge_states(states))
    except ValueError as e:
      merged = f'ValueError: {e}'
    # With a dummy vocab that is never looked at, the very same merge works.
    dummy = metrics_classification.ClassificationAggFn(
        'recall', input_type=input_type, average='macro', vocab={'unused': 0}
    )
    with_dummy = dummy.get_result(dummy.merge_states(states))
    print(f'{input_type}: one batch={one_batch:.4f}, two merged shards='
          f'{merged}, with a dummy vocab={with_dummy:.4f}')
    if not (isinstance(merged, float) and np.isclose(merged, one_batch)):
      bad = True
  if bad:
    print('DEFECT: macro-averaged binary / indicator shards cannot be merged.')
    return 1
  print('OK')
  return 0


if __name__ == '__main__':
  sys.exit(main())
