"""MeanAndVariance / Mean silently drop a whole batch that contains inf (C01, C07).

Property C01: feeding a dataset in several batches gives the same result as
one batch.  Property C07: count / mean / total equal their definitions over
the non-NaN values, and the one-shot function API agrees with the accumulator.

MeanAndVariance.merge() (used by add()) decides "this batch is empty, nothing
to merge" with `np.all(np.isnan(other.var))`, Mean.merge() with
`np.all(np.isnan(other.mean))`.  But a NaN variance / mean does not mean "no
valid values": np.nanvar([inf, 1.]) is NaN (and np.nanmean([inf, -inf]) is
NaN) although the batch holds valid, countable, non-NaN values (e.g. an
infinite log-loss).  Such a batch is thrown away as a whole - including its
finite values and its count.  So
  * MeanAndVariance().add([1, 2, 3, inf, 1]) leaves the accumulator empty
    (count 0, mean nan) while the one-shot API metrics.rolling_stats.count /
    mean of the same batch say 5 / inf,
  * count / mean / total depend on how the data was batched,
  * MeanAndVariance disagrees with Mean on the same stream and hides an
    infinite value behind a finite mean.

Expected (numpy): count=5, mean=inf, var=nan for [1, 2, 3, inf, 1]; the
emptiness test should look at the count, not at the NaN-ness of var / mean.
"""
import sys
import warnings

import numpy as np
from ml_metrics._src.aggregates import rolling_stats
from ml_metrics._src.metrics import rolling_stats as one_shot

warnings.simplefilter('ignore')


def describe(m):
  return f'count={m.count} mean={m.mean} total={m.total}'


def main():
  bad = False
  batch_1, batch_2 = [1.0, 2.0, 3.0], [np.inf, 1.0]
  data = batch_1 + batch_2
  print(f'definition            : count={np.sum(~np.isnan(data))}'
        f' mean={np.nanmean(data)}')
  print(f'one-shot function API : count={one_shot.count(data)}'
        f' mean={one_shot.mean(data)}')

  one = rolling_stats.MeanAndVariance()
  one.add(data)
  two = rolling_stats.MeanAndVariance()
  two.add(batch_1)
  two.add(batch_2)
  mean_only = rolling_stats.Mean()
  mean_only.add(batch_1)
  mean_only.add(batch_2)
  print('MeanAndVariance, one batch  :', describe(one), f'var={one.var}')
  print('MeanAndVariance, two batches:', describe(two), f'var={two.var}')
  print('Mean,            two batches:', describe(mean_only))
  for m in (one, two, mean_only):
    if m.count != 5 or m.mean != np.inf:
      bad = True

  # Merging shards: the operand with the inf is ignored as if it were empty.
  shard_1 = rolling_stats.MeanAndVariance()
  shard_1.add(batch_1)
  shard_2 = rolling_stats.MeanAndVariance()
  batch_result = shard_2.add(batch_2)
  shard_1.merge(batch_result)
  print('MeanAndVariance, [1, 2, 3] merged with the state of [inf, 1]:',
        describe(shard_1))
  if shard_1.count != 5:
    bad = True

  # Same for Mean when the batch mean is NaN without any NaN input.
  one = rolling_stats.Mean()
  one.add([1.0, 5.0])
  one.add([np.inf, -np.inf, 3.0])
  print('Mean [1, 5] + [inf, -inf, 3]: ', describe(one),
        '(definition: count=5 mean=nan)')
  if one.count != 5 or not np.isnan(one.mean):
    bad = True

  if bad:
    print('DEFECT: a batch with inf values is dropped from count/mean/var.')
    return 1
  print('OK')
  return 0


if __name__ == '__main__':
  sys.exit(main())
