"""Classification: the class vocabulary is re-deduced per batch (C01).

Property C01: feeding a dataset in several batches must give the same result
as feeding it in one batch; a value never depends on the batch mates.

With input_type='multiclass' / 'multiclass-multioutput' and no `vocab`,
_multiclass_confusion_matrix() / _topk_confusion_matrix() build a fresh
vocabulary from the labels of *each batch* (`vocab or get_vocab(...)`), and
ConfusionMatrixAggFn.update_state() then adds the per-class count vectors of
different batches position by position (`cm += state`).  Nothing in the state
remembers which class a column stands for.  Consequences:
  * average='macro': counts of different classes are added together -> a
    silently wrong value when the batches have the same number of classes, a
    broadcasting ValueError otherwise.  (merge_states() refuses macro without
    a vocab, update_state() does not.)
  * average='micro' (and 'samples'): tn = (#classes of the batch - ...) so
    every tn-based metric (binary_accuracy, specificity, fpr, npv, mcc ...)
    depends on how the examples are batched; merge_states() accepts this
    configuration without complaint.
"""
import sys

import numpy as np
from ml_metrics._src.aggregates import classification
from ml_metrics._src.metrics import classification as metrics_classification

# Integer labels: set() ordering is deterministic for small ints.
Y_TRUE = [0, 0, 1, 1, 2, 2, 2, 3, 3, 3]
Y_PRED = [0, 1, 1, 1, 2, 2, 2, 2, 2, 3]
CUT = 4  # batch 1 only holds classes {0, 1}, batch 2 only {2, 3}.


def reference(metric):
  """Macro / micro values from the definition over the 4 classes."""
  yt, yp = np.asarray(Y_TRUE), np.asarray(Y_PRED)
  cms = []
  for c in range(4):
    tp = np.sum((yt == c) & (yp == c))
    fp = np.sum((yt != c) & (yp == c))
    fn = np.sum((yt == c) & (yp != c))
    tn = np.sum((yt != c) & (yp != c))
    cms.append((tp, tn, fp, fn))
  if metric == 'macro_precision':
    return float(np.mean([tp / (tp + fp) for tp, _, fp, _ in cms]))
  tp, tn, fp, fn = np.sum(cms, axis=0)
  return float((tp + tn) / (tp + tn + fp + fn))  # micro binary_accuracy


def batched(agg_fn, use_merge):
  if use_merge:
    states = [
        agg_fn.update_state(None, Y_TRUE[:CUT], Y_PRED[:CUT]),
        agg_fn.update_state(None, Y_TRUE[CUT:], Y_PRED[CUT:]),
    ]
    return agg_fn.get_result(agg_fn.merge_states(states))
  state = agg_fn.create_state()
  state = agg_fn.update_state(state, Y_TRUE[:CUT], Y_PRED[:CUT])
  state = agg_fn.update_state(state, Y_TRUE[CUT:], Y_PRED[CUT:])
  return agg_fn.get_result(state)


def main():
  bad = False

  macro = metrics_classification.ClassificationAggFn(
      'precision', input_type='multiclass', average='macro'
  )
  expected = reference('macro_precision')
  one = float(macro(Y_TRUE, Y_PRED))
  try:
    two = float(batched(macro, use_merge=False))
  except Exception as e:  # pylint: disable=broad-exception-caught
    two = f'{type(e).__name__}: {e}'
  print(f'macro precision: definition={expected:.4f} one batch={one:.4f}'
        f' two batches (update_state twice)={two}')
  if not (isinstance(two, float) and np.isclose(two, expected)):
    bad = True

  # Different number of classes per batch: not even a wrong number.
  try:
    state = macro.update_state(None, [0, 1, 2], [0, 1, 1])
    state = macro.update_state(state, [0, 1], [0, 0])
    print('macro, 3 then 2 classes:', macro.get_result(state))
  except Exception as e:  # pylint: disable=broad-exception-caught
    print(f'macro, 3 then 2 classes: {type(e).__name__}: {e}')
    bad = True

  micro = classification.ConfusionMatrixAggFn(
      metrics='binary_accuracy', input_type='multiclass', average='micro'
  )
  expected = reference('micro_binary_accuracy')
  one = float(micro(Y_TRUE, Y_PRED))
  two = float(batched(micro, use_merge=False))
  merged = float(batched(micro, use_merge=True))
  print(f'micro binary_accuracy: definition={expected:.4f} one batch={one:.4f}'
        f' two batches={two:.4f} two merged shards={merged:.4f}')
  if not (np.isclose(two, expected) and np.isclose(merged, expected)):
    bad = True

  if bad:
    print('DEFECT: classification results depend on the batching when no'
          ' vocab is given.')
    return 1
  print('OK')
  return 0


if __name__ == '__main__':
  sys.exit(main())
