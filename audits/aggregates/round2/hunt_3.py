"""KerasAggregateFn.create_state() hands out one shared, re-reset object (C11/C01).

Property C11: a freshly created state is a neutral element and states are
independent (updates to one never leak into another); C01: any number of
independent accumulators can be fed and merged.

KerasAggregateFn (exported as ml_metrics.aggregates.KerasAggregateFn) keeps a
single metric instance in `self._metric`; create_state() resets *that*
instance and returns it.  So every state of one aggregate function is the same
object: creating the state for a second shard wipes the data of the first one,
both shards then accumulate into the same object and merge_states([s1, s2])
merges the object with itself.  This happens for a metric instance as well as
for a metric factory (the factory is only called once, in __post_init__).
The shipped merge test only passes because it builds two KerasAggregateFn
objects.

Expected: create_state() returns an independent state each time (call the
factory / deep-copy the reset metric), sum over shards [1, 2, 3] and [10] = 16.
"""
import sys

from ml_metrics._src.aggregates import keras_metric_wrapper


class SumMetric:
  """Minimal object implementing the Keras metric interface."""

  def __init__(self):
    self.total = 0

  def reset_state(self):
    self.total = 0

  def update_state(self, inputs):
    self.total += sum(inputs)

  def merge_state(self, others):
    for other in others:
      self.total += other.total

  def result(self):
    return self.total


def main():
  bad = False
  for name, arg in (
      ('metric instance', SumMetric()),
      ('metric factory', lambda: SumMetric()),  # pylint: disable=unnecessary-lambda
  ):
    agg_fn = keras_metric_wrapper.KerasAggregateFn(arg)
    shard_1 = agg_fn.update_state(agg_fn.create_state(), [1, 2, 3])
    shard_2 = agg_fn.create_state()
    after_create = agg_fn.get_result(shard_1)
    shard_2 = agg_fn.update_state(shard_2, [10])
    shard_1_result = agg_fn.get_result(shard_1)
    merged = agg_fn.get_result(agg_fn.merge_states([shard_1, shard_2]))
    print(
        f'{name}: same object={shard_1 is shard_2}, shard 1 after creating'
        f' shard 2={after_create} (expected 6), shard 1 after updating shard'
        f' 2={shard_1_result} (expected 6), merged={merged} (expected 16)'
    )
    if shard_1 is shard_2 or shard_1_result != 6 or merged != 16:
      bad = True
  if bad:
    print('DEFECT: the states of a KerasAggregateFn are not independent.')
    return 1
  print('OK')
  return 0


if __name__ == '__main__':
  sys.exit(main())
