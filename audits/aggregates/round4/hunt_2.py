"""Property C07 (precision / recall / f1 at a threshold equal their definitions).

ThresholdedRetrieval (through its default matcher `retrieval_matcher`) mishandles
a ranking that contains the same id more than once (e.g. several chunks of the
same document, scores descending). The repair for repeated predictions
(db983c4) was made in TopKRetrieval only. In retrieval_matcher every occurrence
of a relevant id is a matched prediction, and the probability stored for the
*true* item is overwritten by every later occurrence, so the true item ends up
with the probability of its LAST (lowest) occurrence:

  y_true = [['a']], y_pred = [['a', 'a']], y_prob = [[0.9, 0.1]], threshold 0.5

By definition the set retrieved above 0.5 is {'a'} and the relevant set is
{'a'}: precision = recall = f1 = 1. The library reports precision 1.0 (one
retrieved item, relevant) but recall 0.0 and f1 0.0: the same confusion matrix
says tp = 1 on the prediction side and tp = 0 on the truth side. Swapping the
two occurrences ([0.1, 0.9]) gives recall 1.0, so the value depends on the
order of the duplicates, not on what was retrieved.
"""
import sys
import numpy as np
from ml_metrics._src.aggregates import retrieval

def run(y_true, y_pred, y_prob, thresholds=(0.5,)):
  m = retrieval.ThresholdedRetrieval(thresholds=thresholds)
  m.add(y_true, y_pred, y_prob)
  r = m.result()
  return {k: np.asarray(r[k]).tolist() for k in ('precision', 'recall', 'f1_score')}

dup = run([['a']], [['a', 'a']], [[0.9, 0.1]])
dup_swapped = run([['a']], [['a', 'a']], [[0.1, 0.9]])
nodup = run([['a']], [['a']], [[0.9]])
print('duplicate id, probs [0.9, 0.1] @0.5:', dup)
print('duplicate id, probs [0.1, 0.9] @0.5:', dup_swapped)
print('single occurrence,    [0.9]    @0.5:', nodup)

# A less degenerate ranking: doc 'a' retrieved by two chunks, doc 'b' missed.
mixed = run([['a', 'b']], [['a', 'x', 'a']], [[0.9, 0.6, 0.2]])
print("y_true=[a,b], y_pred=[a,x,a], probs [0.9,0.6,0.2] @0.5:", mixed,
      '(definition: precision 0.5, recall 0.5)')

bad = False
if not np.isclose(dup['recall'][0], 1.0):
  bad = True
if dup != dup_swapped:
  bad = True
if not np.isclose(mixed['recall'][0], 0.5):
  bad = True
if bad:
  print('DEFECT: the true item gets the probability of the last duplicate; '
        'recall/f1 at a threshold are wrong and depend on the order of duplicates')
  sys.exit(1)
print('ok')
sys.exit(0)
