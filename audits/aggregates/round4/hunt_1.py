"""Property C07 (metric values equal their definitions; one-shot API == accumulator API).

ValueAccumulator is a CallableMetric: `metric(*batch)` is documented as "calculates
the result from the sufficient statistics" of that batch, i.e. the same value as
feeding the batch to a fresh accumulator and reading result() (this is what
`as_agg_fn()(batch)` returns, pinned by the upstream test
test_value_accumulator_as_agg_fn). But ValueAccumulator.new() builds the batch
state with `self.__class__(_data=...)` and drops `concat_fn` and `metric_fns`, so
the one-shot call returns the raw accumulated data instead of the configured
metric value(s).
"""
import sys
import numpy as np
from ml_metrics._src.aggregates import rolling_stats

concat = lambda x, y: x + y
batch = [0, 1, 2, 3, 4, 5, 6, 7, 8]
bad = False

# single metric function
acc = rolling_stats.ValueAccumulator(concat, sum)
acc.add(batch)
via_add = acc.result()
via_agg_fn = rolling_stats.ValueAccumulator(concat, sum).as_agg_fn()(batch)
via_call = rolling_stats.ValueAccumulator(concat, sum)(batch)
print('metric_fns=sum      add+result():', via_add, '| as_agg_fn()(batch):',
      via_agg_fn, '| metric(batch):', via_call)
if via_call != via_add:
  bad = True

# dict of metric functions
fns = {'sum': sum, 'mean': np.mean}
acc = rolling_stats.ValueAccumulator(concat, fns)
acc.add(batch)
via_add = acc.result()
via_call = rolling_stats.ValueAccumulator(concat, fns)(batch)
print('metric_fns=dict     add+result():', via_add, '| metric(batch):', via_call)
if via_call != via_add:
  bad = True

# the state returned by new()/add() has lost the configuration as well
state = rolling_stats.ValueAccumulator(concat, sum).new(batch)
print('new(batch) keeps concat_fn / metric_fns:', state.concat_fn is concat,
      state.metric_fns is sum)

if bad:
  print('DEFECT: the one-shot call ignores metric_fns (returns the raw data)')
  sys.exit(1)
print('ok')
sys.exit(0)
