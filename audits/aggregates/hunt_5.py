# Property C07: precision/recall equal their definitions; a value cannot depend
# on the numeric container (python floats / float64 vs float32) of the input.
#
# ThresholdedRetrieval compares three things against the thresholds:
#   thresholds           -> cast to float32 in __post_init__ (retrieval.py:348)
#   matched_pred_prob    -> stored as float32 by retrieval_matcher (:255-262)
#   y_prob (all preds)   -> np.asarray(row_prob): float64 for python floats (:252)
# With the strict `>` comparison a prediction whose probability equals a
# threshold (e.g. 0.7, whose float32 value is below the float64 one) is counted
# as a *predicted positive* (float64 0.7 > float32 0.7) but NOT as a *true
# positive* (float32 0.7 > float32 0.7 is False).  Precision of a perfect
# retrieval therefore drops to 0.5, and passing the same probabilities as
# float32 gives a different answer.
import sys
import warnings

import numpy as np

warnings.simplefilter('ignore')
from ml_metrics._src.aggregates import retrieval  # pylint: disable=g-import-not-at-top

y_true = [[1, 2]]
y_pred = [[1, 2]]  # every prediction is correct
probs = [0.9, 0.7]
thresholds = [0.5, 0.7]


def run(y_prob):
  m = retrieval.ThresholdedRetrieval(thresholds=thresholds, metrics=['precision'])
  m.add(y_true=y_true, y_pred=y_pred, y_prob=y_prob)
  cm = m.confusion_matrix
  return (
      np.asarray(m.result()['precision']).tolist(),
      np.asarray(cm.tp_preds).tolist(),
      np.asarray(cm.p_preds).tolist(),
  )


p64, tp64, pp64 = run([probs])
p32, tp32, pp32 = run([np.asarray(probs, dtype=np.float32)])
print('all predictions are correct, thresholds', thresholds, 'probabilities', probs)
print(f'python floats : precision={p64} true-positive preds={tp64} predicted positives={pp64}')
print(f'float32 array : precision={p32} true-positive preds={tp32} predicted positives={pp32}')

bad = False
# Whatever the tie convention at prob == threshold, every predicted positive is
# a true positive here, so precision can only be 1.0 (or 0.0 by the safe-divide
# convention when nothing is predicted positive), never 0.5.
if any(p not in (0.0, 1.0) for p in p64 + p32):
  bad = True
if p64 != p32:
  bad = True
if any(t > p for t, p in zip(tp64, pp64)) or tp64 != pp64:
  print('inconsistent counts: the same item is a predicted positive but not a true positive')
  bad = True

if bad:
  print('DEFECT: mixed float32/float64 threshold comparison in ThresholdedRetrieval.')
  sys.exit(1)
print('OK')
sys.exit(0)
