# Property C07: rolling statistics return the textbook value computed from the raw
# examples.
#
# MinMaxAndCount initialises its running maximum with 0 instead of -inf
# (rolling_stats.py:455 `_max: int = 0`, while `_min` correctly starts at +inf),
# and add()/merge() fold with np.maximum.  For data (or batch_score_fn scores)
# that are all negative the reported max is 0, a value that never occurred; with
# axis=0 only the all-negative columns are wrong.  The shipped tests only use
# non-negative data.
import sys

import numpy as np

from ml_metrics._src.aggregates import rolling_stats

bad = False

m = rolling_stats.MinMaxAndCount()
m.add([-3.0, -1.5])
m.add([-7.0])
print(f'data [-3, -1.5, -7]: min={m.min} max={m.max} count={m.count} (expected max -1.5)')
bad |= m.max != -1.5

m = rolling_stats.MinMaxAndCount(batch_score_fn=np.sum)
m.add([-1, -2])
m.add([-5, 1])
print(f'batch sums [-3, -4]: min={m.min} max={m.max} (expected max -3)')
bad |= m.max != -3

m = rolling_stats.MinMaxAndCount(axis=0)
m.add([[1.0, -2.0], [3.0, -4.0]])
shard = rolling_stats.MinMaxAndCount(axis=0)
shard.add([[2.0, -9.0]])
m.merge(shard)
print(f'axis=0 columns: min={m.min} max={m.max} (expected max [3, -2])')
bad |= not np.array_equal(m.max, [3.0, -2.0])

if bad:
  print('DEFECT: MinMaxAndCount.max is clamped at 0.')
  sys.exit(1)
print('OK')
sys.exit(0)
