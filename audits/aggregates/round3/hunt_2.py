"""C01 (aggregates are invariant to sharding) - also C11 (merge of valid states).

ConfusionMatrixAggFn.merge_states (classification.py, first statement of
merge_states) refuses every merge with average='macro' unless a `vocab` was
passed: "Global vocab is needed for "macro" average."  The vocabulary is only
used (and only needed, to keep class positions stable) by the 'multiclass' /
'multiclass-multioutput' encodings.  For input_type='binary' (classes are
[pos_label, not pos_label]) and 'multiclass-indicator' (classes are the
columns) the class positions are fixed by the encoding, `vocab` is never read,
and still two shards cannot be merged - while the same data in one accumulator,
or the merge with an arbitrary dummy vocab such as {'unused': 0}, works and
gives the one-batch value.  This goes through the public
metrics.classification.ClassificationAggFn as well.
"""
import sys
import warnings

import numpy as np

warnings.simplefilter('ignore')
from ml_metrics._src.metrics import classification as metrics_classification

y_true_bin = np.array([1, 0, 1, 1, 0, 0, 1, 0])
y_pred_bin = np.array([1, 1, 0, 1, 0, 1, 1, 0])
y_true_ind = np.array([[1, 0, 0], [0, 1, 0], [0, 0, 1], [1, 0, 0], [0, 1, 0], [0, 0, 1]])
y_pred_ind = np.array([[1, 0, 0], [1, 0, 0], [0, 0, 1], [0, 1, 0], [0, 1, 0], [0, 0, 1]])

failed = False
for input_type, y_true, y_pred in (
    ('binary', y_true_bin, y_pred_bin),
    ('multiclass-indicator', y_true_ind, y_pred_ind),
):
  def make(**kw):
    return metrics_classification.ClassificationAggFn(
        metrics=['precision', 'recall'], input_type=input_type, average='macro', **kw
    )

  agg = make()
  whole = agg(y_true, y_pred)
  whole = {str(k): float(v) for k, v in whole.items()}
  print(f'[{input_type}] one accumulator, one batch   :', whole)

  half = len(y_true) // 2
  shard_1 = agg.update_state(agg.create_state(), y_true[:half], y_pred[:half])
  shard_2 = agg.update_state(agg.create_state(), y_true[half:], y_pred[half:])
  try:
    merged = agg.get_result(agg.merge_states([shard_1, shard_2]))
    merged = {str(k): float(v) for k, v in merged.items()}
    print(f'[{input_type}] two shards merged            :', merged)
    if not all(np.isclose(merged[k], whole[k]) for k in whole):
      failed = True
  except ValueError as e:
    print(f'[{input_type}] two shards merged            : ValueError: {e}')
    failed = True

  # The vocab it asks for is not used at all: any dict makes the merge work.
  dummy = make(vocab={'unused': 0})
  shard_1 = dummy.update_state(dummy.create_state(), y_true[:half], y_pred[:half])
  shard_2 = dummy.update_state(dummy.create_state(), y_true[half:], y_pred[half:])
  merged = dummy.get_result(dummy.merge_states([shard_1, shard_2]))
  print(f"[{input_type}] same with vocab={{'unused': 0}}:",
        {str(k): float(v) for k, v in merged.items()})

if failed:
  print('DEFECT: macro-averaged binary / indicator confusion matrices cannot be merged across shards')
  sys.exit(1)
print('OK')
sys.exit(0)
