"""C07 (rates stay in their mathematical range / values equal their definition).

TopKRetrieval counts a relevant item once per *occurrence* in the ranking
(retrieval.py add(): `int(y_pred_row[i] in y_true_row)` for every position i),
while the denominators count every relevant item once (len(y_true_row)).
A ranking that repeats a relevant id (common for generated / merged candidate
lists) therefore scores recall = 2.0, miss_rate = -1.0, IoU = 2.0, mAP = 2.0,
NDCG = 1.63, F1 = 1.33 ... for y_true=[['a']], y_pred=[['a', 'a']].
The same rows through the top-k classification metrics (indicator encoding)
give recall 1.0. No batching / merging is involved: one row, one batch.
"""
import sys
import warnings

import numpy as np

warnings.simplefilter('ignore')
from ml_metrics._src.aggregates import classification
from ml_metrics._src.aggregates import retrieval
from ml_metrics._src.metrics import retrieval as retrieval_fns

y_true = [['a'], ['b', 'c']]
y_pred = [['a', 'a', 'x'], ['b', 'y', 'b']]
k_list = [1, 2, 3]

metric = retrieval.TopKRetrieval(k_list=k_list)
metric.add(y_true, y_pred)
res = {str(k): np.asarray(v, dtype=float) for k, v in metric.result().items()}

in_unit_range = (
    'precision', 'recall', 'sensitivity', 'tpr', 'intersection_over_union',
    'f1_score', 'mean_average_precision', 'miss_rate', 'false_discovery_rate',
    'fowlkes_mallows_index', 'ndcg_score', 'threat_score',
)
bad = []
for name in in_unit_range:
  v = res[name]
  flag = bool(np.any(v > 1 + 1e-9) or np.any(v < -1e-9))
  print(f'{name:28s} @k={k_list}: {np.round(v, 4)}' + ('   <-- outside [0, 1]' if flag else ''))
  if flag:
    bad.append(name)

# Reference: each relevant item can be retrieved once.
def recall_at(k):
  vals = []
  for t, p in zip(y_true, y_pred):
    vals.append(len(set(p[:k]) & set(t)) / len(t))
  return float(np.mean(vals))

expected_recall = [recall_at(k) for k in k_list]
print('recall by definition (|top-k ∩ relevant| / |relevant|):', np.round(expected_recall, 4))
print('one-shot API retrieval.recall:', np.round(retrieval_fns.recall(y_true, y_pred, k_list=k_list), 4))
cls = classification.SamplewiseClassification(
    metrics='recall', input_type='multiclass-multioutput',
    vocab={c: i for i, c in enumerate('abcxy')},
)
cls.add(y_true, y_pred)
print('samplewise classification recall on the same (full) rows:', np.round(cls.result(), 4),
      ' vs retrieval recall@3:', np.round(res['recall'][-1], 4))

if bad or not np.allclose(res['recall'], expected_recall):
  print('DEFECT: repeated ids in a ranking are counted as several hits:', bad)
  sys.exit(1)
print('OK')
sys.exit(0)
