"""C11 (merge never damages its operands / is defined for all states), C01 (all
metric configurations).

FixedSizeSample.merge accepts samplers with different max_size (upstream test
test_fixed_size_sample_merge_different_max_sizes merges a max_size=10 sampler
into a max_size=5 one).  The other direction is broken: when the receiver has
the larger capacity, _merge_reservoirs (rolling_stats.py) keeps drawing from the
operand with probability n_other / (n_self + n_other) computed from the
*reviewed* counts, although the operand's reservoir only holds
min(other.max_size, n_other) samples.  As soon as more than other.max_size
draws fall on the operand, `reservoir_new.pop(self._rng.integers(0))` raises
ValueError('high <= 0').  The exception leaves the receiver damaged: the
samples drawn so far were already popped out of self._reservoir, so it now
holds fewer than max_size samples while num_samples_reviewed still says 100.
"""
import sys

from ml_metrics._src.aggregates import rolling_stats

crashed, damaged = [], []
for seed in range(20):
  receiver = rolling_stats.FixedSizeSample(10, seed=seed)
  receiver.add(list(range(100)))
  operand = rolling_stats.FixedSizeSample(5, seed=seed)
  operand.add(list(range(100, 200)))
  before = list(receiver.result())
  try:
    receiver.merge(operand)
  except Exception as e:  # pylint: disable=broad-exception-caught
    crashed.append(seed)
    after = list(receiver.result())
    if after != before:
      damaged.append(seed)
    print(
        f'seed={seed}: merge raised {e!r}; receiver reservoir went from'
        f' {len(before)} to {len(after)} samples,'
        f' num_samples_reviewed={receiver.num_samples_reviewed}'
    )
  else:
    r = receiver.result()
    assert len(r) == 10 and len(set(r)) == 10, r
    assert receiver.num_samples_reviewed == 200

# The direction covered by the upstream test works for every seed.
for seed in range(20):
  receiver = rolling_stats.FixedSizeSample(5, seed=seed)
  receiver.add(list(range(100)))
  operand = rolling_stats.FixedSizeSample(10, seed=seed)
  operand.add(list(range(100, 200)))
  receiver.merge(operand)
  assert len(receiver.result()) == 5 and receiver.num_samples_reviewed == 200
print('small receiver <- large operand: fine for all 20 seeds')

print(f'large receiver <- small operand: crashed for seeds {crashed},'
      f' receiver damaged for seeds {damaged}')
if crashed:
  print('DEFECT: merging a smaller-capacity sampler crashes and corrupts the receiver')
  sys.exit(1)
print('OK')
sys.exit(0)
