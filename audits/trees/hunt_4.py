"""C19 violation: error skipping + re-batching silently drops every row after the first failed batch.

Property text: "Re-batching a stream of column tuples to a target batch size
emits, column by column, exactly the concatenation of the input rows in
order ...". With ignore_error=True the documented behaviour is that the batch
whose function call failed is skipped and the run continues (that is what
happens without re-batching, and what TreeFn/apply does with re-batching).

For assign() (tree_fns.Assign; the same code path is used by FilterFn and
Sink) with batch_size / fn_batch_size set, one failing function call ends the
whole stream: every later, perfectly fine input row is lost without any error.
Cause: Assign.iterate passes `self._iterate` to
iter_utils.processed_with_inputs WITHOUT ignore_error, so inside _iterate the
function is mapped with the plain `map` and the exception travels through the
`rebatched_args` generator (tree_fns.py:249-254). A generator that propagated
an exception is finished; processed_with_inputs' iter_ignore_error swallows
the exception, emits one _SKIP, calls next() again, gets StopIteration from the
dead generator and ends the output. With fn_batch_size > input batch size even
the rows before the failure are lost.
"""
import sys
from absl import logging
from ml_metrics._src.chainables import transform

logging.set_verbosity(logging.FATAL)
T = transform.TreeTransform


def inputs():
  return [{'a': [2 * i, 2 * i + 1]} for i in range(5)]  # rows 0..9


def fn(a):
  if 2 in a:
    raise ValueError('row 2 is poisonous')
  return [x + 100 for x in a]


def run(**kwargs):
  t = T().assign('b', fn=fn, input_keys='a', **kwargs)
  return list(t.make().iterate(inputs(), ignore_error=True))


def rows(outputs, key):
  return [x for batch in outputs for x in batch[key]]


baseline = run()
print('assign, ignore_error, no re-batching:')
for b in baseline:
  print('    ', b)
assert rows(baseline, 'a') == [0, 1, 4, 5, 6, 7, 8, 9]

bad = 0
for kwargs in (
    dict(batch_size=2),
    dict(fn_batch_size=1, batch_size=2),
    dict(fn_batch_size=4, batch_size=2),
):
  out = run(**kwargs)
  print(f'assign, ignore_error, {kwargs}:')
  for b in out:
    print('    ', b)
  a_rows, b_rows = rows(out, 'a'), rows(out, 'b')
  print(f'     rows of a that survived: {a_rows}')
  # Rows 6..9 are in batches (and fn batches) that never contain row 2, they
  # have to survive whatever the skipping granularity is.
  lost = [r for r in (6, 7, 8, 9) if r not in a_rows]
  if lost or b_rows != [x + 100 for x in a_rows]:
    print(f'     LOST rows unrelated to the failure: {lost}')
    bad += 1

print(f'{bad} configurations dropped the rest of the stream after one error')
sys.exit(1 if bad else 0)
