# Property C19 (re-batching conserves rows, order and column alignment).
#
# The repair 02649d8 ("assign with batch_size rejects input batches of another
# size") measures the number of input rows as len() of the FIRST SELECTED INPUT
# (Assign._assign_outputs: iter_utils.batch_size(self._get_inputs(inputs)[0])).
# That value is only a row count when the first input key names a flat column:
#  (a) with the default input_keys=SELF the first input is the whole batch dict,
#      its len() is the number of COLUMNS: a perfectly aligned
#      assign('c', fn=..., batch_size=2) over 2-row batches with 3 columns is
#      now rejected ("mismatch of 2 output rows and 3 input rows"); it worked
#      before the repair;
#  (b) when the first input key is a Key.Literal the literal is measured:
#      a scalar literal raises TypeError('Non sequence type'), valid pipeline;
#  (c) conversely, when the number of columns happens to equal batch_size the
#      check passes although the input batches have another number of rows: the
#      misalignment / row loss the repair was meant to reject is still emitted
#      silently.
import sys

from ml_metrics._src.chainables import transform
from ml_metrics._src.chainables import tree

Key = tree.Key
defect = False


def run(t, data):
  try:
    return list(t.make().iterate(data)), None
  except Exception as e:  # pylint: disable=broad-exception-caught
    return None, e


import logging
logging.disable(logging.CRITICAL)
try:
  from absl import logging as absl_logging
  absl_logging.set_verbosity(absl_logging.FATAL)
except Exception:  # pylint: disable=broad-exception-caught
  pass

# (a) aligned batches (2 rows each, batch_size=2), fn of the whole batch (SELF).
data = [
    {'a': [0, 1], 'b': [10, 11], 'x': [20, 21]},
    {'a': [2, 3], 'b': [12, 13], 'x': [22, 23]},
]
t = transform.TreeTransform.new().assign(
    'c', fn=lambda d: [v + 100 for v in d['a']], batch_size=2
)
out, err = run(t, data)
expected = [dict(d, c=[v + 100 for v in d['a']]) for d in data]
print('(a) assign(c, fn(SELF), batch_size=2), 2-row batches with 3 columns:')
print('    got     :', out if err is None else f'{type(err).__name__}: {err}')
print('    expected:', expected)
if out != expected:
  defect = True

# (b) first input is a scalar literal.
t = transform.TreeTransform.new().assign(
    'c',
    fn=lambda k, a: [v + k for v in a],
    input_keys=(Key.Literal(100), 'a'),
    batch_size=2,
)
out, err = run(t, data)
print('(b) assign(c, fn(Literal(100), a), batch_size=2), 2-row batches:')
print('    got     :', out if err is None else f'{type(err).__name__}: {err}')
print('    expected:', expected)
if out != expected:
  defect = True
# The same with the literal last is accepted (shows that (b) is a valid config).
t = transform.TreeTransform.new().assign(
    'c',
    fn=lambda a, k: [v + k for v in a],
    input_keys=('a', Key.Literal(100)),
    batch_size=2,
)
out, err = run(t, data)
print('    literal last:', out if err is None else f'{type(err).__name__}: {err}')

# (c) 3 columns, batch_size=3, but input batches of 2 rows: must be rejected
# (or aligned), instead the check compares 3 output rows with 3 COLUMNS.
data3 = [
    {'a': [0, 1], 'b': [10, 11], 'x': [20, 21]},
    {'a': [2, 3], 'b': [12, 13], 'x': [22, 23]},
    {'a': [4, 5], 'b': [14, 15], 'x': [24, 25]},
]
t = transform.TreeTransform.new().assign(
    'c', fn=lambda d: [v + 100 for v in d['a']], batch_size=3
)
out, err = run(t, data3)
print('(c) assign(c, fn(SELF), batch_size=3), 2-row batches with 3 columns:')
print('    got     :', out if err is None else f'{type(err).__name__}: {err}')
if err is None:
  rows_in = sum(len(d['a']) for d in data3)
  rows_out = sum(len(d['a']) for d in out)
  misaligned = [d for d in out if len(d['c']) != len(d['a'])]
  print(
      f'    no error: {rows_in} input rows -> {rows_out} output rows,'
      f' {len(misaligned)} emitted batches whose column c has another length'
      ' than column a'
  )
  defect = True

print('DEFECT PRESENT' if defect else 'ok')
sys.exit(1 if defect else 0)
