# Property C19 (re-batching conserves rows, order and column alignment).
#
# The repairs 7aad6f0 / a150b13 ("an ignorable error raised inside the input
# re-batcher silently ended the stream") only protect the INPUT re-batcher of
# apply() (TreeFn.iterate, which calls _iterate(ignore_error=True)). With
# ignore_error=True an ignorable error (ValueError / TypeError) that crosses a
# rebatched_args generator still finishes that generator; the enclosing
# iter_ignore_error then swallows the error, asks for the next element, gets
# StopIteration from the dead generator and the stream ENDS SILENTLY: the rows
# already buffered and every later batch are lost, no error is reported.
#  (1) assign(..., batch_size=n) (also with fn_batch_size): Assign / FilterFn /
#      Sink go through iter_utils.processed_with_inputs, which calls
#      process_fn(iter_input), i.e. TreeFn._iterate with ignore_error=False, so
#      neither the input nor the function errors are skipped in front of the
#      re-batchers: ONE failing function call (or one malformed record) ends the
#      stream. The same pipeline without batch_size skips just the bad batch.
#  (2) apply(fn, batch_size=n): a function result the OUTPUT re-batcher cannot
#      handle (a scalar, columns of unequal length) for one batch raises inside
#      that generator: followed by any other operator the stream ends silently.
import sys

from ml_metrics._src.chainables import transform

try:
  from absl import logging as absl_logging
  absl_logging.set_verbosity(absl_logging.FATAL)
except Exception:  # pylint: disable=broad-exception-caught
  pass

defect = False


def run(t, data):
  try:
    return list(t.make().iterate(data, ignore_error=True)), None
  except Exception as e:  # pylint: disable=broad-exception-caught
    return None, e


def show(out, err):
  return out if err is None else f'{type(err).__name__}: {err}'


# 6 batches of 2 rows, the function fails on the third batch only.
data = [{'a': [i, i + 1]} for i in range(0, 12, 2)]


def fn(a):
  if a[0] == 4:
    raise ValueError('bad batch')
  return [v * 10 for v in a]


good = [d for d in data if d['a'][0] != 4]
expected = [dict(d, c=[v * 10 for v in d['a']]) for d in good]

print('(1) assign(c, fn(a)) with ignore_error=True, fn raises for batch #2 of 6')
t0 = transform.TreeTransform.new().assign('c', fn=fn, input_keys='a')
out0, err0 = run(t0, data)
print('    without batch_size:', show(out0, err0))
t1 = transform.TreeTransform.new().assign(
    'c', fn=fn, input_keys='a', batch_size=2
)
out1, err1 = run(t1, data)
print('    with batch_size=2 :', show(out1, err1))
print('    expected          :', expected)
if out0 != expected:
  print('    (unexpected: the pipeline without batch_size differs as well)')
if err1 is None and out1 != expected:
  lost = sum(len(d['a']) for d in expected) - sum(len(d['a']) for d in out1)
  print(f'    -> no error raised, {lost} good rows silently lost')
  defect = True

# The same with a malformed record in front of the input re-batcher.
data2 = [{'a': [0, 1]}, {'a': None}, {'a': [4, 5]}, {'a': [6, 7]}]
t2 = transform.TreeTransform.new().assign(
    'c',
    fn=lambda a: [v * 10 for v in a],
    input_keys='a',
    fn_batch_size=2,
    batch_size=2,
)
out2, err2 = run(t2, data2)
expected2 = [
    dict(d, c=[v * 10 for v in d['a']]) for d in data2 if d['a'] is not None
]
print('    assign(fn_batch_size=2, batch_size=2), record #1 of 4 malformed:')
print('      got     :', show(out2, err2))
print('      expected:', expected2)
if err2 is None and out2 != expected2:
  defect = True

# (2) output re-batcher of apply().
rows = [[i, i + 1] for i in range(0, 12, 2)]


def fn_bad_output(x):
  if x[0] == 4:
    return 7  # not a column
  return [v * 10 for v in x]


t3 = (
    transform.TreeTransform.new()
    .apply(fn_bad_output, batch_size=3)
    .apply(lambda x: x)
)
out3, err3 = run(t3, rows)
flat_expected = [v * 10 for r in rows if r[0] != 4 for v in r]
print('(2) apply(fn, batch_size=3).apply(identity), ignore_error=True, fn')
print('    returns a scalar for batch #2 of 6:')
print('    got          :', show(out3, err3))
print('    expected rows:', flat_expected, 'in batches of 3 (or an error)')
if err3 is None:
  flat = [v for b in out3 for v in b]
  if flat != flat_expected:
    print(
        f'    -> no error raised, {len(flat_expected) - len(flat)} good rows'
        ' silently lost'
    )
    defect = True

# (3) the repaired path itself: the input re-batcher of apply(). The columns are
# validated in front of the generator, but the concatenation inside it can still
# raise an ignorable error, e.g. arrays padded to a per-batch length.
import numpy as np

data4 = [{'t': np.full((2, n), i)} for i, n in enumerate([3, 3, 4, 3, 3, 3])]
t4 = transform.TreeTransform.new().apply(
    lambda t: [int(r.sum()) for r in t],
    input_keys='t',
    fn_batch_size=4,
    batch_size=4,
)
out4, err4 = run(t4, data4)
print('(3) apply(fn, input_keys=t, fn_batch_size=4, batch_size=4), 6 batches')
print('    of 2 rows, batch #2 has another trailing dimension:')
print('    got:', show(out4, err4))
if err4 is None:
  n_rows = sum(len(b) for b in out4)
  print(
      f'    -> no error raised, only {n_rows} of 12 rows came out (10 rows are'
      ' concatenable: batches #0 #1 #3 #4 #5)'
  )
  if n_rows < 8:
    defect = True

print('DEFECT PRESENT' if defect else 'ok')
sys.exit(1 if defect else 0)
