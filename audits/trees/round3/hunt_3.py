# Property C19 (re-batching conserves rows, order and column alignment: row i of
# every column of an emitted batch comes from the same input row).
#
# The repair 02649d8 guards assign(..., batch_size=n) with a per-pair check in
# Assign._assign_outputs: it raises a ValueError when the re-batched output and
# the (not re-batched) input it is zipped with have different numbers of rows.
# The error type is one of the "ignorable" ones (iter_utils._IGNORE_ERROR_TYPES)
# and it is raised from an itertools.starmap, which survives it. With
# ignore_error=True the next operator therefore just skips that pair and goes
# on, but outputs and inputs stay shifted against each other for the rest of
# the stream: as soon as a later input batch happens to have batch_size rows
# again, the check passes and the rows of ANOTHER input batch are assigned to
# it - silently, which is exactly what the repair was meant to make impossible.
import sys

from ml_metrics._src.chainables import transform

try:
  from absl import logging as absl_logging
  absl_logging.set_verbosity(absl_logging.FATAL)
except Exception:  # pylint: disable=broad-exception-caught
  pass

sizes = [3, 1, 2, 3, 3]
data, n = [], 0
for s in sizes:
  data.append({'a': list(range(n, n + s))})
  n += s

t = (
    transform.TreeTransform.new()
    .assign('c', fn=lambda a: [v * 10 for v in a], input_keys='a', batch_size=3)
    .select(('a', 'c'))
)
print('input batch sizes:', sizes, ' assign(c = 10 * a, batch_size=3).select(a, c)')
try:
  out = list(t.make().iterate(data, ignore_error=True))
  err = None
except Exception as e:  # pylint: disable=broad-exception-caught
  out, err = None, e

if err is not None:
  print(f'raised {type(err).__name__}: {err}')
  print('ok (the mismatch is reported)')
  sys.exit(0)

print('emitted (no error):')
misaligned = []
for d in out:
  ok = list(d['c']) == [v * 10 for v in d['a']]
  print('   ', d, '' if ok else '   <-- c is not 10 * a: rows of another batch')
  if not ok:
    misaligned.append(d)
if misaligned:
  print('DEFECT PRESENT: misaligned columns emitted silently')
  sys.exit(1)
print('ok')
sys.exit(0)
