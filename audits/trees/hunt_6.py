"""C19 violation: checkpoint/restore of a re-batching pipeline loses the rows carried in the re-batch buffer.

Property text: "Re-batching a stream of column tuples to a target batch size
emits, column by column, exactly the concatenation of the input rows in order"
(combination exercised: checkpoint/restore together with re-batching).

rebatched_args (iter_utils.py:1317-1377) keeps the rows that did not fill a
batch yet in its local `column_buffer` (the "carry"). The iterator checkpoint
(_RunnerIterator.state -> MultiplexIterator.state) only records how many input
batches the data source has handed out. After the first output batch [0, 1, 2]
of a stream of 2-row inputs re-batched to 3, the source has handed out 2 input
batches (rows 0..3) and row 3 sits in the carry. Restoring from the state taken
at that point resumes at input batch #2 (rows 4, 5) with an empty carry: row 3
is never emitted, by either `apply(batch_size=)`, `select(batch_size=)` or
`assign(fn_batch_size=, batch_size=)`, and every later batch boundary is
shifted. No error is raised. The un-checkpointed iterator, continued, emits
[3, 4, 5] next, so "first batch + restored remainder" != uninterrupted run.
"""
import sys
from absl import logging
from ml_metrics._src.chainables import io
from ml_metrics._src.chainables import transform

logging.set_verbosity(logging.FATAL)
T = transform.TreeTransform


def flat(batches):
  return [x for b in batches for x in b]


bad = 0
for name, make in [
    ('apply(batch_size=3)', lambda t: t.apply(batch_size=3)),
    (
        'apply(fn, fn_batch_size=3, batch_size=2)',
        lambda t: t.apply(fn=lambda x: x, fn_batch_size=3, batch_size=2),
    ),
]:
  ds = io.SequenceDataSource([[0, 1], [2, 3], [4, 5], [6, 7], [8, 9]])
  runner = make(T.new().data_source(ds)).make()
  full = list(runner.iterate())
  it = runner.iterate()
  first = next(it)
  state = it.state  # checkpoint after the first emitted batch
  restored = list(it.from_state(state))
  print(name)
  print('    uninterrupted run          :', full)
  print('    first batch, then checkpoint:', first, state.input_states)
  print('    restored iterator yields    :', restored)
  got = flat([first] + restored)
  missing = sorted(set(flat(full)) - set(got))
  print('    rows missing after restore  :', missing)
  if got != flat(full):
    bad += 1

sys.exit(1 if bad else 0)
