# Property C19 (re-batching emits exactly the concatenation of the input ROWS,
# column by column) in combination with a Key.Literal input (C18 quantifier:
# "literal keys").
#
# A Key.Literal(value) input key is a constant that is handed to the function
# as it is (TreeMapView.__get returns k.value; the masking code was already
# repaired to treat it as "a constant, not a batch of rows"). With fn_batch_size
# TreeFn._iterate nevertheless feeds the literal into rebatched_args as if it
# were a column of rows:
#   * a scalar literal raises TypeError('Non sequence type: int ...'),
#   * a list / tuple / array literal is CONCATENATED once per merged input batch
#     and sliced like a data column, so the function silently receives a
#     different constant (and 'Hetroegeneous columns' is raised when the literal
#     does not happen to be as long as the batch).
# Without fn_batch_size the same transform works.
import sys

from absl import logging
from ml_metrics._src.chainables import transform
from ml_metrics._src.chainables import tree

logging.set_verbosity(logging.FATAL)
Key = tree.Key
seen = []


def scale(a, weights):
  seen.append(weights)
  return [x * sum(weights) for x in a]


def add(a, k):
  return [x + k for x in a]


def run(fn, literal, inputs, **kw):
  seen.clear()
  t = transform.TreeTransform.new().apply(
      fn=fn, input_keys=('a', Key.Literal(literal)), output_keys='o', **kw
  )
  try:
    out = list(t.make().iterate(inputs))
  except Exception as e:  # pylint: disable=broad-exception-caught
    return e
  return [x for batch in out for x in batch['o']]


inputs = [{'a': [0, 1]}, {'a': [2, 3]}]
failed = False

expected = [0, 3, 6, 9]
plain = run(scale, [1, 2], inputs)
print(f'list literal [1, 2], no fn_batch_size : {plain}')
batched = run(scale, [1, 2], inputs, fn_batch_size=4, batch_size=4)
print(f'list literal [1, 2], fn_batch_size=4   : {batched}; fn received the'
      f' literal as {seen}')
failed |= plain != expected or batched != expected

expected = [100, 101, 102, 103]
plain = run(add, 100, inputs)
print(f'scalar literal 100, no fn_batch_size   : {plain}')
batched = run(add, 100, inputs, fn_batch_size=4, batch_size=4)
print(f'scalar literal 100, fn_batch_size=4    : {batched!r}')
failed |= plain != expected or batched != expected

if failed:
  print('DEFECT: a Key.Literal input is re-batched like a column of rows when'
        ' fn_batch_size is set.')
  sys.exit(1)
print('OK')
sys.exit(0)
