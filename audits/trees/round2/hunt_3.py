# Property C19 (re-batching conserves rows and order), fault: the assigned
# function fails for one batch while the pipeline runs with ignore_error=True.
#
# assign() (tree_fns.Assign, also FilterFn / Sink) runs through
# iter_utils.processed_with_inputs(self._iterate, ..., ignore_error=True). That
# helper calls process_fn(iter_input) WITHOUT ignore_error and wraps the whole
# returned chain in iter_ignore_error(..., error_return=_SKIP). Without batch
# sizes the chain is made of map() objects, which survive an exception, so only
# the failing batch is skipped. With batch_size (and / or fn_batch_size) the
# chain contains rebatched_args generators: the function's error passes through
# the output re-batcher and finishes it, iter_ignore_error emits one _SKIP, then
# sees StopIteration, and the stream ends silently. Every row after the failing
# call is lost, and so are the rows of earlier, successful calls that were still
# buffered in the output re-batcher (here: everything).
import sys

from absl import logging
from ml_metrics._src.chainables import transform

logging.set_verbosity(logging.FATAL)


def fn(a):
  if 3 in a:
    raise ValueError('bad row 3')
  return [x + 100 for x in a]


def run(inputs, **kw):
  t = transform.TreeTransform.new().assign('o', fn=fn, input_keys='a', **kw)
  try:
    return list(t.make().iterate(inputs, ignore_error=True))
  except Exception as e:  # pylint: disable=broad-exception-caught
    return e


inputs = [{'a': [0, 1, 2]}, {'a': [3, 4, 5]}, {'a': [6, 7, 8]}, {'a': [9, 10, 11]}]
# Only the batch with the bad row may be skipped.
expected = [
    {'a': [0, 1, 2], 'o': [100, 101, 102]},
    {'a': [6, 7, 8], 'o': [106, 107, 108]},
    {'a': [9, 10, 11], 'o': [109, 110, 111]},
]
failed = False
for kw in ({}, dict(batch_size=3), dict(fn_batch_size=3, batch_size=3)):
  out = run(inputs, **kw)
  print(f'assign(..., {kw}) with ignore_error=True ->\n    {out!r}')
  if out != expected:
    failed = True
    if not kw:
      print('    (unexpected: the un-batched control is wrong as well)')

if failed:
  print('DEFECT: with ignore_error one failing call of an assign() with batch'
        ' sizes silently ends the stream (rows of good batches are lost).')
  sys.exit(1)
print('OK')
sys.exit(0)
