# Property C18 (get/set laws: reading a path after a set returns the set value;
# quantifier: fresh key paths, SELF).
#
# TreeMapView.set(keys, values, in_place=True) - the default of set() and what
# view[key] = value does - computes the new tree with _set_by_path() and then
# returns `self if in_place else dataclasses.replace(self, data=data)`, i.e. it
# THROWS THE COMPUTED TREE AWAY and relies on the containers having been mutated.
# Whenever _set_by_path has to return a NEW root object the set is silently
# lost:
#   * an empty view (TreeMapView(), data is the NullMap placeholder): the
#     default tree built by _default_tree() is discarded, view['a'] = 1 is a
#     no-op, 'a' is still absent afterwards;
#   * Key.SELF / Key() (replace the root): view[Key.SELF] = x is a no-op.
# No error is raised. The copying set (copy_and_set) handles the very same keys
# correctly.
import sys

from ml_metrics._src.chainables import tree

Key = tree.Key
TreeMapView = tree.TreeMapView
failed = False

view = TreeMapView()
view['a'] = 1
got = view.get('a', '<missing>')
print(f"TreeMapView(); view['a'] = 1; view['a'] -> {got!r}"
      f' (data is {type(view.data).__name__})')
print(f"    copying set: {TreeMapView().copy_and_set('a', 1).data!r}")
failed |= got != 1

view = TreeMapView()
view.set(('a', Key.new('b', Key.Index(0))), (1, 2))
print(f'TreeMapView().set((a, b[0]), (1, 2)).data -> {view.data!r}')
failed |= view.data != {'a': 1, 'b': [2]}

view = TreeMapView({'x': 1})
view[Key.SELF] = {'y': 2}
print(f"TreeMapView({{'x': 1}}); view[SELF] = {{'y': 2}}; data -> {view.data!r}")
print(f"    copying set: {TreeMapView({'x': 1}).copy_and_set(Key.SELF, {'y': 2}).data!r}")
failed |= view.data != {'y': 2}

# Control: in-place set below an existing mutable root works.
view = TreeMapView({'x': 1})
view['a'] = 1
print(f"control TreeMapView({{'x': 1}}); view['a'] = 1 -> {view.data!r}")
failed |= view.data != {'x': 1, 'a': 1}

if failed:
  print('DEFECT: an in-place set that has to create / replace the root is'
        ' silently discarded.')
  sys.exit(1)
print('OK')
sys.exit(0)
