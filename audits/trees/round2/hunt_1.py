# Property C19 (re-batching conserves rows, order and column alignment).
#
# TreeTransform.assign(..., batch_size=n) (tree_fns.Assign) re-batches the
# function OUTPUTS to n rows (TreeFn._iterate) and then zips these re-batched
# outputs one-to-one with the ORIGINAL, not re-batched input batches
# (iter_utils.processed_with_inputs -> zip(iter_output, iter_input.tee())).
# Whenever an input batch does not have exactly n rows, the assigned column
# belongs to other rows than the columns it is assigned next to: the emitted
# batch has columns of different lengths, row i of 'o' does not come from row i
# of 'a', and input batches can be dropped altogether (or an unrelated
# IndexError('No element left.') is raised when there are more output batches
# than input batches). No value of batch_size is right for a stream of ragged
# input batches (e.g. sizes 2, 3 with fn_batch_size=2).
import sys

from absl import logging
from ml_metrics._src.chainables import transform

logging.set_verbosity(logging.FATAL)


def run(inputs, **kw):
  t = transform.TreeTransform.new().assign(
      'o', fn=lambda a: [x + 100 for x in a], input_keys='a', **kw
  )
  try:
    return list(t.make().iterate(inputs))
  except Exception as e:  # pylint: disable=broad-exception-caught
    return e


def aligned(outputs, num_rows):
  """Every row is emitted once, in order, with o == a + 100 on the same row."""
  if isinstance(outputs, Exception):
    return False
  rows = []
  for batch in outputs:
    a, o = list(batch['a']), list(batch['o'])
    if len(a) != len(o):
      return False
    rows.extend(zip(a, o))
  return rows == [(i, i + 100) for i in range(num_rows)]


failed = False
cases = [
    ('ragged inputs 2,3; fn_batch_size=2, batch_size=3',
     [{'a': [0, 1]}, {'a': [2, 3, 4]}], dict(fn_batch_size=2, batch_size=3), 5),
    ('ragged inputs 2,3; batch_size=3',
     [{'a': [0, 1]}, {'a': [2, 3, 4]}], dict(batch_size=3), 5),
    ('four inputs of 1 row; batch_size=2',
     [{'a': [0]}, {'a': [1]}, {'a': [2]}, {'a': [3]}], dict(batch_size=2), 4),
    ('one input of 4 rows; batch_size=2',
     [{'a': [0, 1, 2, 3]}], dict(batch_size=2), 4),
    ('control: inputs 3,2; fn_batch_size=2, batch_size=3',
     [{'a': [0, 1, 2]}, {'a': [3, 4]}], dict(fn_batch_size=2, batch_size=3), 5),
]
for name, inputs, kw, n in cases:
  out = run(inputs, **kw)
  ok = aligned(out, n)
  print(f'{name}:\n    -> {out!r}\n    aligned={ok}')
  failed |= not ok

if failed:
  print('DEFECT: assign() with batch_size pairs re-batched outputs with the'
        ' un-re-batched inputs (misaligned columns / lost rows).')
  sys.exit(1)
print('OK')
sys.exit(0)
