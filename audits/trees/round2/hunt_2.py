# Property C19 (re-batching conserves rows and order), fault: one unreadable
# input batch while the pipeline runs with ignore_error=True.
#
# The repair "skipped input errors do not terminate the input re-batching"
# (tree_fns.TreeFn._iterate wraps the data source in iter_ignore_error) is
# incomplete: only exceptions raised by the data source itself are skipped in
# front of the input re-batcher. An ignorable error (ValueError / TypeError, see
# iter_utils._IGNORE_ERROR_TYPES) that is raised while the selected inputs are
# taken (TreeFn._get_inputs, it runs in map() INSIDE the rebatched_args
# generator) or by the validation of rebatched_args itself (a None / scalar
# column -> TypeError 'Non sequence type', columns of different lengths ->
# ValueError 'Hetroegeneous columns') still passes through the rebatched_args
# generator and finishes it. map_ignore_error swallows the error, asks for the
# next element, gets StopIteration, and the stream ends silently: the rows that
# were already buffered in the re-batcher and ALL later rows are lost.
# Without fn_batch_size exactly the same inputs only lose the bad batch.
import sys

from absl import logging
from ml_metrics._src.chainables import transform

logging.set_verbosity(logging.FATAL)


def run(inputs, **kw):
  t = transform.TreeTransform.new().apply(
      fn=lambda a: [x + 100 for x in a], input_keys='a', output_keys='o', **kw
  )
  try:
    out = list(t.make().iterate(inputs, ignore_error=True))
  except Exception as e:  # pylint: disable=broad-exception-caught
    return e
  return [x for batch in out for x in batch['o']]


failed = False
good_rows = [100, 101, 102, 103, 104, 105]
cases = {
    'a column that is None': [
        {'a': [0]}, {'a': [1, 2]}, {'a': None}, {'a': [3, 4]}, {'a': [5]},
    ],
    'an input that is a list instead of a dict (TypeError in _get_inputs)': [
        {'a': [0]}, {'a': [1, 2]}, [7], {'a': [3, 4]}, {'a': [5]},
    ],
}
for name, inputs in cases.items():
  plain = run(inputs)
  rebatched = run(inputs, fn_batch_size=2, batch_size=2)
  print(f'{name}:')
  print(f'    rows without fn_batch_size          : {plain}')
  print(f'    rows with fn_batch_size=2,batch_size=2: {rebatched}')
  if plain != good_rows:
    print('    (unexpected: the un-batched run should only skip the bad batch)')
  if rebatched != good_rows:
    failed = True

if failed:
  print('DEFECT: with ignore_error and fn_batch_size one unreadable input batch'
        ' silently ends the stream (buffered and all later rows are lost).')
  sys.exit(1)
print('OK')
sys.exit(0)
