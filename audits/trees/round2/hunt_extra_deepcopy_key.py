# NOT one of the five reported findings (it does not violate the text of C18 /
# C19); kept as an observation about ml_metrics/_src/chainables/tree.py.
#
# tree.Key.__getattr__ turns EVERY unknown attribute into a longer key path,
# including the dunder hooks that the stdlib probes with getattr(): copy.deepcopy
# does `copier = getattr(x, '__deepcopy__', None)`, gets
# Path(..., '__deepcopy__') instead of None and calls it ->
# TypeError("'Key' object is not callable"). transform._RunnerIterator.state /
# from_state deep-copy the aggregation state, whose MetricKey holds the
# aggregate's output keys and the SliceKey features, so checkpointing a pipeline
# that uses a Key path as aggregate output key or as slice feature fails.
import copy
import sys

from absl import logging
from ml_metrics._src.aggregates import rolling_stats
from ml_metrics._src.chainables import io
from ml_metrics._src.chainables import transform
from ml_metrics._src.chainables import tree

logging.set_verbosity(logging.FATAL)
Key = tree.Key
failed = False
try:
  print('deepcopy ->', copy.deepcopy({'k': (Key.new('a', 'b'),)}))
except TypeError as e:
  print(f'copy.deepcopy(Key.new("a", "b")) raised {e!r}')
  failed = True


def state_of(output_keys, slice_key=None):
  source = io.SequenceDataSource([
      {'x': {'v': [1, 2, 3], 'f': ['a', 'b', 'a']}},
      {'x': {'v': [4], 'f': ['b']}},
  ])
  t = transform.TreeTransform.new().data_source(source).aggregate(
      rolling_stats.MeanAndVariance(),
      input_keys=Key.new('x', 'v'),
      output_keys=output_keys,
  )
  if slice_key is not None:
    t = t.add_slice(slice_key)
  it = t.make().iterate()
  next(it)
  try:
    _ = it.state
    return 'ok'
  except Exception as e:  # pylint: disable=broad-exception-caught
    return repr(e)


for args in (('stats',), (Key.new('out', 'stats'),), ('stats', Key.new('x', 'f'))):
  result = state_of(*args)
  print(f'iterator.state with output_keys / slice {args}: {result}')
  failed |= result != 'ok'
sys.exit(1 if failed else 0)
