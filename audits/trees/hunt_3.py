"""C19 violation: re-batching a multi-output TreeFn whose output key is SELF mixes the columns up.

Property text: "Re-batching a stream of column tuples to a target batch size
emits, column by column, exactly the concatenation of the input rows in order;
every emitted batch except possibly the last has exactly the target size ...
all columns of a batch have equal length (row i of every column comes from the
same input row)".

`TreeTransform.apply(input_keys=('a', 'b'), batch_size=N)` (or any fn returning
several outputs with the default output key SELF) is legal and, without
batch_size, yields the tuple (a_batch, b_batch) per input. With batch_size set,
TreeFn._iterate first runs _normalize_outputs, which wraps the k outputs into a
single element `((a_batch, b_batch),)` because the output key is SELF, and then
calls rebatched_args(num_columns=self._num_outputs == 1)
(tree_fns.py:248-254). rebatched_args therefore sees ONE column whose "rows"
are the k output columns: _batch_size() is k, and the a- and b-columns get
concatenated / sliced as if they were rows. Result: batches of the requested
size made of whole columns from different inputs, e.g. ([0, 1], [10, 11],
[2, 3]) -- rows are not concatenated per column, column a and column b are
interleaved, nothing has the target size. The same pipeline spelled with
explicit output keys (select(('a', 'b'), batch_size=N)) is correct.
"""
import sys
from absl import logging
from ml_metrics._src.chainables import transform

logging.set_verbosity(logging.FATAL)


def inputs():
  return [
      {'a': [0, 1], 'b': [10, 11]},
      {'a': [2, 3], 'b': [12, 13]},
      {'a': [4], 'b': [14]},
  ]


def run(t):
  try:
    return list(t.make().iterate(inputs()))
  except Exception as e:  # pylint: disable=broad-exception-caught
    return f'RAISED {type(e).__name__}: {e}'


T = transform.TreeTransform
bad = 0
for batch_size in (3, 2, 1):
  # Reference: the same selection with explicit output keys.
  ref = run(T().select(('a', 'b'), batch_size=batch_size))
  expected = [(d['a'], d['b']) for d in ref]
  for name, t in [
      ('apply(input_keys=(a, b))',
       T().apply(input_keys=('a', 'b'), batch_size=batch_size)),
      ('apply(fn -> (a, b))',
       T().apply(fn=lambda a, b: (a, b), input_keys=('a', 'b'),
                 batch_size=batch_size)),
  ]:
    actual = run(t)
    print(f'{name}, batch_size={batch_size}:')
    print(f'    actual   = {actual}')
    print(f'    expected = {expected}')
    if actual != expected:
      bad += 1

# Without batch_size the multi-output-to-SELF pipeline is fine (control).
control = run(T().apply(input_keys=('a', 'b')))
print('control without batch_size =', control)
assert control == [(d['a'], d['b']) for d in inputs()]

print(f'{bad} re-batched pipelines produced misaligned columns')
sys.exit(1 if bad else 0)
