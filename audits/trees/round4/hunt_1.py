# Property C19 (re-batching conserves rows, order and column alignment).
# Incomplete repair of a150b13 ("input re-batching keeps literal inputs
# constant"): that repair only covers the INPUT re-batcher (fn_batch_size).
# select(..., batch_size=n) sends the selected inputs straight through the
# OUTPUT re-batcher (TreeFn._iterate -> rebatched_args), including the constant
# of a Key.Literal input: the constant is concatenated once per input batch and
# re-sliced like a data column. A list/array literal whose length equals the
# input batch size is silently turned into another "constant" per emitted batch
# (any other length raises an unrelated 'Hetroegeneous columns' / 'Non sequence
# type' error). Without batch_size the same select yields the literal unchanged.
import sys
import ml_metrics
from ml_metrics._src.chainables import transform, tree

print(ml_metrics.__file__)
Key = tree.Key
data = [{'a': [0, 1]}, {'a': [2, 3]}, {'a': [4, 5]}]
literal = [7, 8]

plain = list(
    transform.TreeTransform()
    .select(('a', Key.Literal(literal)), ('a', 'c'))
    .make()
    .iterate(data)
)
print('without batch_size:', plain)
assert all(r['c'] == literal for r in plain)

try:
  batched = list(
      transform.TreeTransform()
      .select(('a', Key.Literal(literal)), ('a', 'c'), batch_size=3)
      .make()
      .iterate(data)
  )
except Exception as e:  # pylint: disable=broad-exception-caught
  print('with batch_size=3: raised', type(e).__name__, e)
  sys.exit(1)
print('with batch_size=3: ', batched)
rows_ok = [r['a'] for r in batched] == [[0, 1, 2], [3, 4, 5]]
const_ok = all(r['c'] == literal for r in batched)
print('data column re-batched correctly:', rows_ok)
print('literal stayed the constant', literal, ':', const_ok)
if not (rows_ok and const_ok):
  print('DEFECT: the Key.Literal constant was re-batched like a data column')
  sys.exit(1)
sys.exit(0)
