# Property C18 (applying a leaf function maps every leaf; keys/values aligned).
# A view with key_paths decides whether a key is present with
# `self.get(key, _MISSING)` (TreeMapView.__iter__, repair 7047918). get() reads
# the MAPPED value and swallows KeyError / IndexError, so an error raised BY THE
# LEAF FUNCTION (e.g. a vocabulary lookup `vocab[x]` on an unknown token, an
# index out of range) is taken for "key absent": the present key is silently
# dropped from keys()/items(), and apply() returns the leaf UNMAPPED instead of
# raising. The same view without key_paths raises the KeyError as expected.
import sys
import ml_metrics
from ml_metrics._src.chainables import tree

print(ml_metrics.__file__)
vocab = {'cat': 0, 'dog': 1}
lookup = lambda token: vocab[token]  # KeyError on an unknown token.
data = {'a': 'cat', 'b': 'bird', 'c': 'dog'}

try:
  tree.TreeMapView(data, map_fn=lookup).apply()
  print('no key_paths: no error (unexpected)')
except KeyError as e:
  print('no key_paths: apply() raises KeyError', e, '(expected)')

view = tree.TreeMapView(data, key_paths=('a', 'b', 'c'), map_fn=lookup)
defect = False
try:
  keys = view.keys()
  print('key_paths=(a, b, c): keys() =', keys)
  result = view.apply()
  print('key_paths=(a, b, c): apply() =', result)
  if 'b' not in keys:
    print('DEFECT: the present key "b" is not listed')
    defect = True
  if result.get('b') == 'bird':
    print('DEFECT: leaf "b" was silently left unmapped, the KeyError of the'
          ' leaf function was swallowed')
    defect = True
except KeyError as e:
  print('key_paths=(a, b, c): raises KeyError', e, '(correct)')
sys.exit(1 if defect else 0)
