"""C18 violation: iteration yields paths that cannot be read back (bytes / range / deque leaves).

Property text: "Iterating a view lists every leaf exactly once with a path that
reads back that leaf ... applying a leaf function maps every leaf and only
leaves."

tree._dfs_iter_tree descends into every collections.abc.Sequence except str
(`isinstance(data, Sequence) and not isinstance(data, str)`), whereas
TreeMapView.__get (and _set_by_path) only index into list / tuple / ndarray
(types.is_array_like) or Mapping. The two definitions of "node" disagree for
bytes, bytearray, range, deque, ...: such a value is enumerated element by
element (a bytes feature b'xy' becomes two int "leaves" 120, 121), the yielded
paths raise KeyError when read back through the same view, so values(), items(),
len-based helpers and apply() all fail on any tree that merely contains a
serialized-example style bytes value. The docstring of _dfs_iter_tree says
"All non-Mapping and non-Sequence (with exception of str) is considered a
leaf", bytes is a string type a user expects to be a leaf exactly like str.
"""
import collections
import sys
from ml_metrics._src.chainables.tree import Key, TreeMapView

bad = 0
for name, leaf in [
    ('str (control)', 'xy'),
    ('bytes', b'xy'),
    ('range', range(2)),
    ('deque', collections.deque([1, 2])),
]:
  data = {'id': 7, 'feature': leaf}
  view = TreeMapView(data)
  keys = view.keys()
  print(f'{name}: data={data!r}\n    keys() = {keys!r}')
  unreadable = []
  for k in keys:
    try:
      view[k]
    except Exception as e:  # pylint: disable=broad-exception-caught
      unreadable.append((k, f'{type(e).__name__}'))
  print(f'    paths that do not read back: {unreadable!r}')
  try:
    applied = TreeMapView(data, map_fn=lambda x: ('mapped', x)).apply()
  except Exception as e:  # pylint: disable=broad-exception-caught
    applied = f'RAISED {type(e).__name__}: {str(e)[:100]}'
  expected = {'id': ('mapped', 7), 'feature': ('mapped', leaf)}
  print(f'    apply() = {applied!r}\n    expected  {expected!r}')
  if unreadable or applied != expected:
    bad += 1

print(f'{bad} leaf kinds enumerated with unreadable paths')
sys.exit(1 if bad else 0)
