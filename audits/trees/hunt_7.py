"""Row/column alignment violation in iter_utils.iterate_fn(multithread=True) (C19's alignment clause, code area iter_utils.py).

C19: "... all columns of a batch have equal length (row i of every column
comes from the same input row)". iterate_fn is the library's adapter that
turns a per-row function into a per-batch (column oriented) function, so that
it can be used in apply()/assign() on batches: output row i must be fn(input
row i).

With multithread=True the wrapper collects the per-row futures with
    outputs = list(x.result() for x in futures.as_completed(states))
(iter_utils.py:1186-1189). as_completed yields in COMPLETION order, not in
submission order, so whenever rows take different time the output column is a
permutation of the expected one. Used through assign(), the new column is then
misaligned with the columns of the input batch. The delay in the user callback
below only makes the interleaving deterministic.
"""
import sys
import time
from absl import logging
from ml_metrics._src.chainables import transform
from ml_metrics._src.utils import iter_utils

logging.set_verbosity(logging.FATAL)


def times_ten(x):
  # Earlier rows take longer, so they complete later.
  time.sleep(0.05 * (4 - x))
  return x * 10


batch = [0, 1, 2, 3]
serial = iter_utils.iterate_fn(times_ten)(batch)
threaded = iter_utils.iterate_fn(times_ten, multithread=True)(batch)
print('iterate_fn(f)(batch)                  =', serial)
print('iterate_fn(f, multithread=True)(batch) =', threaded)

t = transform.TreeTransform().assign(
    'b', fn=iter_utils.iterate_fn(times_ten, multithread=True), input_keys='a'
)
out = t.make()({'a': batch})
print('assign b = 10 * a row-wise            =', out)
misaligned = [(a, b) for a, b in zip(out['a'], out['b']) if b != a * 10]
print('rows where b != 10 * a                =', misaligned)
sys.exit(1 if threaded != serial or misaligned else 0)
