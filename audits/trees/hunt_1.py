"""C18 violation: a root that is itself a leaf is not listed / not mapped when it is falsy or an array.

Property text: "Iterating a view lists every leaf exactly once with a path that
reads back that leaf ... applying a leaf function maps every leaf and only
leaves", quantified over all trees incl. arrays, "up to a depth bound" (depth 0
is a bare leaf). The library's own test (tree_test.test_iter_with_scalar) fixes
the intended behaviour for a scalar root: TreeMapView(10) lists [Key.SELF] with
value 10, and TreeMapView(5, map_fn=f).apply() == f(5).

Cause: tree._dfs_iter_tree ends with
    elif parent_key_path: yield Key(parent_key_path)
    elif data:            yield Key().SELF
i.e. the root leaf is only listed when it is truthy. So a root 0 / 0.0 / False
/ '' / None / np.array([0]) is silently not listed (and apply() returns it
unmapped, because copy_and_update gets no items), and a root numpy array with
more than one element (or an empty one) makes iteration raise ValueError
("truth value of an array ... is ambiguous"). The same leaves one level down
({'x': 0}, {'x': np.array([1, 2])}) are listed and mapped correctly.
"""
import sys
import numpy as np
from ml_metrics._src.chainables.tree import Key, TreeMapView

bad = 0


def check(name, root, fn):
  global bad
  # Reference: same leaf nested one level down behaves correctly.
  nested = TreeMapView({'x': root}, map_fn=fn)
  assert nested.keys() == (Key.new('x'),), nested.keys()
  expected = nested.apply()['x']
  try:
    keys = TreeMapView(root).keys()
  except Exception as e:  # pylint: disable=broad-exception-caught
    keys = f'RAISED {type(e).__name__}: {e}'
  try:
    applied = TreeMapView(root, map_fn=fn).apply()
  except Exception as e:  # pylint: disable=broad-exception-caught
    applied = f'RAISED {type(e).__name__}: {e}'
  ok_keys = keys == (Key.SELF,)
  ok_apply = (
      not isinstance(applied, str) or not applied.startswith('RAISED')
  ) and np.array_equal(applied, expected)
  print(
      f'{name}: root={root!r}\n    keys()  = {keys!r}   (expected'
      f' (Reserved(\'SELF\'),))\n    apply() = {applied!r}   (expected'
      f' {expected!r})'
  )
  if not (ok_keys and ok_apply):
    bad += 1


inc = lambda x: x + 1
check('truthy scalar (control)', 10, inc)
check('zero scalar', 0, inc)
check('False', False, lambda x: not x)
check('empty str', '', lambda x: x + 'suffix')
check('np.float32(0)', np.float32(0.0), inc)
check('array([0])', np.array([0]), inc)
check('array([1, 2])', np.array([1, 2]), inc)
check('empty array', np.array([]), lambda x: x.shape)

print(f'{bad} root leaves mishandled')
sys.exit(1 if bad else 0)
