"""C19 violation with threads: num_threads > 0 + re-batching emits several short batches, none of the target size.

Property text: "every emitted batch except possibly the last has exactly the
target size".

TreeTransform.new(num_threads=N) over a non-shardable source runs N copies of
the whole fn chain (iter_utils.piter_fn: `its = [iter_fn(shared_input) for _
in range(parallism)]`) over one shared, thread-safe input iterator. Each copy
owns a private rebatched_args buffer, so every thread re-batches only the rows
it happened to pull and flushes its own short remainder at exhaustion. With 4
input rows, batch_size=3 and 2 threads that each pulled 2 rows the pipeline
emits two batches of 2 rows: there are enough rows for a full batch, yet no
emitted batch has the target size and a short batch is followed by another
batch. (Row order across threads is not asserted here.) The barriers in the
user callback only force the 2/2 split deterministically; random splits happen
without them.
Lower confidence than hunt_3/4/6: a maintainer may call per-thread batching a
known limitation, but it is not documented on batch()/num_threads.
"""
import sys
import threading
from absl import logging
from ml_metrics._src.chainables import transform

logging.set_verbosity(logging.FATAL)
barriers = {0: threading.Barrier(2), 1: threading.Barrier(2)}


def fn(x):
  # rows 0 and 1 (resp. 2 and 3) have to be in flight in two different threads.
  try:
    barriers[x // 2].wait(timeout=5)
  except threading.BrokenBarrierError:
    pass
  return x


serial = list(
    transform.TreeTransform.new(num_threads=0)
    .apply(fn=lambda x: x).batch(batch_size=3).make().iterate(range(4))
)
threaded = list(
    transform.TreeTransform.new(num_threads=2)
    .apply(fn=fn).batch(batch_size=3).make().iterate(range(4))
)
print('num_threads=0:', serial)
print('num_threads=2:', threaded)
sizes = [len(b) for b in threaded]
ok = all(s == 3 for s in sizes[:-1]) and sorted(
    x for b in threaded for x in b
) == [0, 1, 2, 3]
print('batch sizes  :', sizes, '(expected [3, 1])')
sys.exit(0 if ok else 1)
