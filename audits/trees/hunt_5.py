"""C18 violation (key_paths views): a present leaf whose (mapped) value is None is not listed and not mapped.

Property text: "Iterating a view lists every leaf exactly once with a path that
reads back that leaf, multi-key reads return values aligned with the keys, and
applying a leaf function maps every leaf and only leaves."

TreeMapView.__iter__ with user supplied key_paths uses
    if self.get(key) is not None: yield key
to skip key paths that are absent from the data. `get` returns the *mapped*
value, so the same test also drops key paths that ARE present but whose value
is None, or whose map_fn result is None. Consequences:
  * keys()/values()/items()/len() of such a view silently have fewer entries
    than key_paths, so values() is no longer aligned with the requested keys
    (view[key_paths] has the None, view.values() does not);
  * apply() does not map that leaf: V(data, key_paths=.., map_fn=f).apply()
    keeps the ORIGINAL value wherever f returns None, while the very same view
    without key_paths stores the None. (map_fn is also invoked 4x per leaf.)
"""
import sys
from ml_metrics._src.chainables.tree import Key, TreeMapView

bad = 0
data = {'a': None, 'b': 2}
keys = ('a', 'b')
view = TreeMapView(data, key_paths=keys)
print('data =', data, ' key_paths =', keys)
print('    view[key_paths] =', view[keys])
print('    view.keys()     =', view.keys(), '  (DFS view lists:',
      TreeMapView(data).keys(), ')')
print('    view.values()   =', view.values())
if view.keys() != keys or view.values() != view[keys]:
  bad += 1

f = lambda x: None if x == 1 else x * 10
data = {'a': 1, 'b': 2}
without = TreeMapView(data, map_fn=f).apply()
with_paths = TreeMapView(data, key_paths=('a', 'b'), map_fn=f).apply()
print('apply f(1)=None, f(2)=20 on', data)
print('    without key_paths          ->', without)
print("    with key_paths=('a', 'b')  ->", with_paths)
if with_paths != {'a': None, 'b': 20}:
  bad += 1

sys.exit(1 if bad else 0)
