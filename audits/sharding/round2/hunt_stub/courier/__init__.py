"""Minimal stub of courier: only what is needed to import the library."""
class Client:
  def __init__(self, *a, **k):
    raise NotImplementedError('stub')
class Server:
  def __init__(self, *a, **k):
    raise NotImplementedError('stub')
