"""C03 (over any number of shards whose states are merged) - regression of the
repair "make(shard=...) works for pipelines chained from named stages".

TransformRunner.from_transform now skips the shard for every stage without a
data source (`if input_state is not None and data_source is not None`).  When
NO stage of the pipeline owns a data source (the data is handed to
`iterate(data_source)` at run time), `make(shard=ShardConfig(i, k))` used to
raise TypeError('Data source is not configurable ...'); now the shard is
silently dropped: each of the k "shard" runners processes the complete data,
so every row is emitted k times and the merged aggregate counts it k times.
make() must either shard the data source it is eventually given or keep
rejecting a shard that no stage can apply.
"""
import sys
from ml_metrics._src.chainables import io
from ml_metrics._src.chainables import transform


class ListAgg:

  def create_state(self):
    return []

  def update_state(self, state, x):
    return state + [x]

  def merge_states(self, states):
    return sum(states, [])

  def get_result(self, state):
    return str(sorted(state))


def pipelines():
  fused = transform.TreeTransform.new().apply(lambda x: x + 1).agg(ListAgg())
  chained = (
      transform.TreeTransform.new(name='map')
      .apply(lambda x: x + 1)
      .chain(transform.TreeTransform.new(name='agg').agg(ListAgg()))
  )
  return {'fused': fused, 'two named stages': chained}


data = io.SequenceDataSource(range(4))
num_shards, defects = 3, 0
for title, p in pipelines().items():
  runner = p.make()
  it = runner.iterate(data)
  expected_batches, expected = sorted(it), it.agg_result
  try:
    batches, states = [], []
    for i in range(num_shards):
      it = p.make(shard=io.ShardConfig(i, num_shards)).iterate(data)
      batches.extend(it)
      states.append(it.agg_state)
  except TypeError as e:
    print(f'{title}: make(shard=...) rejected: {e}')
    continue
  merged = runner.get_result(runner.merge_states(states))
  print(f'{title}:')
  print('  unsharded run       :', expected_batches, expected)
  print(f'  {num_shards} merged shard runs :', sorted(batches), merged)
  if sorted(batches) != expected_batches or merged != expected:
    defects += 1
if defects:
  print('DEFECT: the shard was silently ignored, every shard run processed '
        'the whole data.')
  sys.exit(1)
print('OK')
