"""C03 (results do not depend on fusing / chaining of the same operators).

TreeTransform.chain() fuses the child into the parent when both have the same
name (the default name '' included).  _chain_and_fuse() simply concatenates
fns and agg_fns, so when the PARENT already ends with an aggregate and the
CHILD brings further map operators, the parent's aggregate silently moves
behind the child's operators: it aggregates the child's outputs instead of the
parent's.  The same operators chained as two differently named stages
aggregate the parent's outputs (the builder API itself refuses to add an
operator after an aggregate: "Aggregation has to be the last node").
"""
import sys
from ml_metrics._src.chainables import io
from ml_metrics._src.chainables import transform


class ListAgg:

  def create_state(self):
    return []

  def update_state(self, state, x):
    return state + [x]

  def merge_states(self, states):
    return sum(states, [])

  def get_result(self, state):
    return str(sorted(state))


def pipeline(name_a, name_b):
  a = (
      transform.TreeTransform.new(name=name_a)
      .data_source(io.SequenceDataSource(range(4)))
      .apply(lambda x: x + 1)
      .agg(ListAgg(), output_keys='seen_by_agg')
  )
  b = transform.TreeTransform.new(name=name_b).apply(lambda x: x * 10)
  return a.chain(b)


def run(p):
  it = p.make().iterate()
  return list(it), it.agg_result


chained = run(pipeline('a', 'b'))
print('two named stages :', chained)
try:
  fused = run(pipeline('a', 'a'))
  print('fused (same name):', fused)
  fused_default = run(pipeline('', ''))
  print('fused (no names) :', fused_default)
except ValueError as e:
  # Refusing to fuse an operator behind an aggregate would be correct too.
  print('fusing rejected:', e)
  sys.exit(0)

if fused != chained or fused_default != chained:
  print('DEFECT: the aggregate of the first transform aggregates the outputs '
        'of the operators that were chained AFTER it once the stages fuse.')
  sys.exit(1)
print('OK')
