"""C03 / C09 (shards of shards; any number of shards whose states are merged).

`TreeTransform.make(shard=ShardConfig(i, k))` applies the shard with
`data_source.from_state(shard)`.  from_state() REPLACES the sharding of the
data source (SequenceDataSource.from_state rebuilds from the unsharded root,
ShardedIterable.from_state overwrites _shard_state) instead of sharding what
the data source currently covers.  For a pipeline whose data source is itself
a shard (`ds.shard(1, 2)`, e.g. the part of the data assigned to this job) or
a restored remainder, the k runs made with make(shard=...) therefore cover the
WHOLE underlying data: rows outside the pipeline's data source are processed
and the merged aggregate differs from the unsharded run of the same pipeline.
(`shard()` itself and the num_threads sub-sharding compose correctly.)
"""
import sys
from ml_metrics._src.chainables import io
from ml_metrics._src.chainables import transform


class ListAgg:

  def create_state(self):
    return []

  def update_state(self, state, x):
    return state + [x]

  def merge_states(self, states):
    return sum(states, [])

  def get_result(self, state):
    return str(sorted(state))


def check(title, data_source, num_shards=3):
  p = transform.TreeTransform.new().data_source(data_source).agg(ListAgg())
  whole = p.make()
  it = whole.iterate()
  expected_batches, expected = sorted(it), it.agg_result
  batches, states = [], []
  for i in range(num_shards):
    it = p.make(shard=io.ShardConfig(i, num_shards)).iterate()
    batches.extend(it)
    states.append(it.agg_state)
  merged = whole.get_result(whole.merge_states(states))
  print(title)
  print('  data source holds          :', list(data_source))
  print('  unsharded run              :', expected_batches, expected)
  print(f'  {num_shards} shards via make(shard=..) :', sorted(batches), merged)
  return sorted(batches) == expected_batches and merged == expected


ok = True
ok &= check(
    'SequenceDataSource(range(10)).shard(1, 2)',
    io.SequenceDataSource(range(10)).shard(1, 2),
)
ok &= check(
    'ShardedIterable(range(10)).shard(1, 2)',
    io.ShardedIterable(range(10)).shard(1, 2),
)
src = io.SequenceDataSource(range(10))
ok &= check(
    'SequenceDataSource(range(10)) restored after 6 elements',
    src.from_state(io.ShardConfig(0, 1, 6)),
)
if not ok:
  print('DEFECT: make(shard=...) ignores the sharding / offset the data source '
        'already has and processes rows outside of it.')
  sys.exit(1)
print('OK')
