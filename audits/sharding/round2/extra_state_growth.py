"""C10 (any number of successive checkpoints / restores).

SequenceDataSource.from_state(state) rebuilds the source with
`root.shard(index, num_shards, offset)` and shard() always records
`parent=self._shard_state`, even when the parent is the trivial unsharded root.
A restored source / iterator therefore reports a state that is one `parent`
level deeper than the state it was restored from (state is not a fixed point of
from_state):

  ShardConfig(0, 1, 3)  ->  ShardConfig(0, 1, 3, parent=ShardConfig(0, 1, 0))
                        ->  ... parent=ShardConfig(.., parent=ShardConfig(..)))

Every checkpoint -> restore cycle adds a level, from_state() recurses over the
levels and _RunnerIterator.state deep-copies them, so a pipeline that is
checkpointed and restored repeatedly fails with RecursionError after ~250
cycles (and each cycle gets slower and the pickled checkpoint larger).  The
number of successive checkpoints must not be bounded.
"""
import pickle
import sys
from ml_metrics._src.chainables import io
from ml_metrics._src.chainables import transform


def depth(state):
  d = 0
  while state is not None:
    state, d = state.parent, d + 1
  return d


ds = io.SequenceDataSource(range(2000))
it = iter(ds)
s0 = it.state
s1 = it.from_state(s0).state
s2 = it.from_state(s1).state
print('state of a fresh iterator        :', s0)
print('state after one restore          :', s1)
print('nesting after 0 / 1 / 2 restores :', depth(s0), depth(s1), depth(s2))


class SumAgg:

  def create_state(self):
    return 0

  def update_state(self, state, x):
    return state + x

  def merge_states(self, states):
    return sum(states)

  def get_result(self, state):
    return state


p = transform.TreeTransform.new().data_source(ds).agg(SumAgg(), output_keys='s')
it = p.make().iterate()
cycles, delivered, failure = 1000, [], None
for cycle in range(cycles):
  try:
    delivered.append(next(it))
    state = it.state  # checkpoint
    it = p.make().iterate().from_state(state)  # restore, as a new job would
  except RecursionError as e:
    failure = f'RecursionError after {cycle} checkpoint/restore cycles: {e}'
    break
if failure is None:
  print(f'{cycles} cycles fine, checkpoint size '
        f'{len(pickle.dumps(state))} bytes, nesting '
        f'{depth(state.input_states[0])}')
  ok = delivered == list(range(cycles)) and depth(state.input_states[0]) <= 2
else:
  print(failure)
  ok = False
if not ok:
  print('DEFECT: the recorded shard state grows with every restore, repeated '
        'checkpoint/restore eventually fails.')
  sys.exit(1)
print('OK')
