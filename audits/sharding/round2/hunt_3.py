"""C03 / C09 (any number of shards, including more shards than elements).

Calling a made pipeline (`p.make(shard=...)()`, the documented way to get the
aggregate of a run) on a shard that holds no element raises
`ValueError: last() was called on an empty iterable` instead of returning the
aggregate of the empty shard.  `ChainedRunner.__call__` drains the iterator
with `mit.last(iter_result)` without a default.  `iterate()` over the very same
runner works and reports the empty aggregate, so the result depends on how the
shard is executed; with k > n shards the sharded run cannot be completed with
`__call__` at all.  (The same happens for an empty data source and for a
filter that drops every batch.)
"""
import sys
from ml_metrics._src.chainables import io
from ml_metrics._src.chainables import transform


class SumAgg:

  def create_state(self):
    return 0

  def update_state(self, state, x):
    return state + x

  def merge_states(self, states):
    return sum(states)

  def get_result(self, state):
    return state


p = (
    transform.TreeTransform.new()
    .data_source(io.SequenceDataSource(range(3)))
    .apply(lambda x: x + 1)
    .agg(SumAgg(), output_keys='sum')
)
print('whole data source      :', p.make()())
num_shards, failed = 5, 0
for i in range(num_shards):
  shard = io.ShardConfig(i, num_shards)
  it = p.make(shard=shard).iterate()
  batches = list(it)
  via_iterate = it.agg_result
  try:
    via_call = p.make(shard=shard)()
  except ValueError as e:
    via_call = f'ValueError: {e}'
    failed += 1
  print(f'shard {i}/{num_shards}: batches={batches} iterate()->{via_iterate} '
        f'__call__->{via_call}')

everything_filtered = (
    transform.TreeTransform.new()
    .data_source(io.SequenceDataSource(range(3)))
    .filter(lambda x: x > 100)
    .agg(SumAgg(), output_keys='sum')
)
try:
  print('filter drops all       :', everything_filtered.make()())
except ValueError as e:
  print('filter drops all       : ValueError:', e)
  failed += 1

if failed:
  print(f'DEFECT: {failed} runs without any batch raised instead of returning '
        'the empty aggregate.')
  sys.exit(1)
print('OK')
