"""Extra (C10, num_threads>0 configuration; not among the five reported).

The only way to restore a pipeline is `p.make().iterate().from_state(state)`.
With num_threads>0 the throw-away iterator returned by iterate() has already
started its worker threads (MultiplexIterator submits the enqueuers in its
constructor); from_state() builds a new iterator and never stops the template.
The template's workers fill their queue from the START of the data source and
then block forever in IteratorQueue.put(): they are non-daemon executor
threads, so the interpreter cannot exit after the restored run completed.
"""
import subprocess
import sys
import textwrap

CHILD = textwrap.dedent("""
    from ml_metrics._src.chainables import io, transform
    p = (transform.TreeTransform.new(num_threads=2)
         .data_source(io.SequenceDataSource(range(100))).apply(lambda x: x + 1))
    it = p.make().iterate()
    head = [next(it) for _ in range(3)]
    state = it.state
    it.maybe_stop()                                   # the first run is stopped properly
    restored = p.make().iterate().from_state(state)   # documented restore idiom
    rest = list(restored)
    print('restored run finished with', len(rest), 'batches', flush=True)
""")
try:
  out = subprocess.run(
      [sys.executable, '-c', CHILD], capture_output=True, text=True, timeout=20
  )
  print(out.stdout.strip())
  print('interpreter exited with', out.returncode)
  sys.exit(0)
except subprocess.TimeoutExpired as e:
  print((e.stdout or b'').decode().strip())
  print('DEFECT: the process did not exit within 20s after the restored run '
        'finished (leaked worker threads of the template iterator).')
  sys.exit(1)
