"""C03 (same emitted batches / same effect with any number of worker threads).

With num_threads=N a runner iterator builds one operator chain per worker
thread (`_RunnerIterator.iter_fn` is instantiated once per shard / worker) and
all chains share the ONE sink instance of a `.sink(...)` operator.
`tree_fns.Sink.iterate` closes the sink in a `finally:` as soon as ITS chain is
exhausted, i.e. the first worker that finishes its shard closes the sink while
the other workers are still writing to it.  Single-threaded the sink receives
every row and is closed once at the end; with 2 threads the rows of the slower
shard hit a closed sink: the run fails (ValueError from write), or with
ignore_error=True the failing rows are silently dropped from the sink AND from
the emitted batches, and close() is called once per thread.

The interleaving is forced deterministically: the rows of the second shard
wait until the first worker has closed the sink.
"""
import sys
import threading
from ml_metrics._src.chainables import io
from ml_metrics._src.chainables import transform

N = 10


class FileLikeSink:
  """Behaves like a file: a write after close() is an error."""

  def __init__(self):
    self.rows, self.close_calls, self.late_writes = [], 0, 0
    self.closed = threading.Event()

  def write(self, x):
    if self.closed.is_set():
      self.late_writes += 1
      raise ValueError('I/O operation on closed sink')
    self.rows.append(x)

  def close(self):
    self.close_calls += 1
    self.closed.set()


def run(num_threads, ignore_error):
  sink = FileLikeSink()

  def second_half_is_slow(x):
    if num_threads and x >= N // 2:
      # The second shard only proceeds once some worker closed the sink (or
      # after a grace period, when the sink is correctly kept open).
      sink.closed.wait(timeout=0.3)
    return x

  p = (
      transform.TreeTransform.new(num_threads=num_threads)
      .data_source(io.SequenceDataSource(range(N)))
      .apply(second_half_is_slow)
      .sink(sink)
  )
  it = p.make().iterate(ignore_error=ignore_error)
  try:
    emitted, error = sorted(it), None
  except Exception as e:  # pylint: disable=broad-exception-caught
    emitted, error = None, f'{type(e).__name__}: {str(e)[:60]}...'
  print(
      f'num_threads={num_threads} ignore_error={ignore_error}: emitted='
      f'{emitted} written={sorted(sink.rows)} close_calls={sink.close_calls} '
      f'writes_after_close={sink.late_writes} error={error}'
  )
  return emitted, sorted(sink.rows), sink.close_calls, sink.late_writes


expected = (list(range(N)), list(range(N)), 1, 0)
defect = False
for ignore_error in (False, True):
  reference = run(0, ignore_error)
  assert reference == expected, reference
  if run(2, ignore_error) != expected:
    defect = True
if defect:
  print('DEFECT: the first worker thread that finishes closes the shared sink '
        'while the other workers still write.')
  sys.exit(1)
print('OK')
