"""Extras outside C03/C09/C10 proper (not among the five reported).

1. ChainedRunner.iterate(with_agg_state=False) (with_agg_result defaults to
   True) returns an AggregateResult computed from the never-updated initial
   state: the runner iterators skip update_state but _ChainedRunnerIterator
   still reports agg_result.
2. ChainedRunner.update_state(state, batch) raises StopIteration (carrying an
   AggregateResult) when the batch is dropped by a filter: it does
   `next(self.iterate([inputs], state=state))` on an iterator without batches.
"""
import sys
from ml_metrics._src.chainables import io, transform


class SumAgg:

  def create_state(self):
    return 0

  def update_state(self, state, x):
    return state + x

  def merge_states(self, states):
    return sum(states)

  def get_result(self, state):
    return state


def returned(it):
  while True:
    try:
      next(it)
    except StopIteration as e:
      return e.value


bad = 0
p = (transform.TreeTransform.new().data_source(io.SequenceDataSource(range(4)))
     .agg(SumAgg(), output_keys='s'))
full = returned(p.make().iterate())
no_state = returned(p.make().iterate(with_agg_state=False))
print('default              :', full)
print('with_agg_state=False :', no_state)
if no_state is not None and no_state.agg_result != full.agg_result:
  bad += 1

q = transform.TreeTransform.new().filter(lambda x: x > 1).agg(SumAgg(), output_keys='s')
runner = q.make()
state = runner.create_state()
for batch in (5, 0, 7):
  try:
    state = runner.update_state(state, batch)
    print('update_state', batch, '->', runner.get_result(state))
  except StopIteration as e:
    print('update_state', batch, '-> raised StopIteration', e.value)
    bad += 1
sys.exit(1 if bad else 0)
