# Property C10 (checkpoint and resume continue exactly where iteration stopped,
# "for every supported execution configuration", num_threads in {0..N}).
#
# A pipeline over a recoverable SequenceDataSource is run with num_threads=2,
# `cut` batches are consumed, `it.state` is captured and restored with
# `p.make().iterate().from_state(state)`. The property requires the restored
# iterator to yield exactly the elements not yet delivered and to end with the
# aggregate of the uninterrupted run. With num_threads=0 this holds. With
# worker threads, every element that a worker already pulled from its source
# shard but that was not yet handed to the consumer (queued in the multiplex
# queue, or held by a worker blocked on the full queue) is silently skipped by
# the restored run, even for a checkpoint taken before the first `next()`.
#
# Cause: MultiplexIterator.state / _RunnerIterator.state (iter_utils.py,
# transform.py) record the position of the *source* iterators, which the
# enqueuing threads advance ahead of the consumer (buffer_size=3*num_threads),
# whereas the aggregation state only contains the delivered batches. Nothing
# accounts for the elements in flight.
#
# The interleaving is forced deterministically by waiting until the workers are
# all blocked on the full queue before taking the checkpoint.
import collections
import sys
import time

from ml_metrics._src.chainables import io
from ml_metrics._src.chainables import transform

N = 40


class Collect:

  def create_state(self):
    return []

  def update_state(self, state, x):
    return state + [x]

  def merge_states(self, states):
    return sum(states, [])

  def get_result(self, state):
    return sorted(state)


def pipeline(num_threads):
  ds = io.SequenceDataSource(range(N))
  return (
      transform.TreeTransform(num_threads=num_threads)
      .data_source(ds)
      .apply(lambda x: x + 100)
      .agg(Collect())
  )


def wait_until_workers_are_blocked(it):
  """Waits until the source positions stop moving (queue full)."""
  prev, stable_since = None, time.time()
  deadline = time.time() + 10
  while time.time() < deadline:
    cur = it.state.input_states
    if cur != prev:
      prev, stable_since = cur, time.time()
    elif time.time() - stable_since > 0.3:
      return
    time.sleep(0.01)


def run(num_threads, cut):
  p = pipeline(num_threads)
  full_it = p.make().iterate()
  full = list(full_it)
  expected = full_it.agg_result

  it = p.make().iterate()
  delivered = [next(it) for _ in range(cut)]
  if num_threads:
    wait_until_workers_are_blocked(it)
  state = it.state
  fresh = p.make().iterate()
  restored = fresh.from_state(state)
  rest = list(restored)
  actual = restored.agg_result
  # Release the worker threads of the abandoned iterators.
  it.maybe_stop()
  fresh.maybe_stop()
  ok = (
      collections.Counter(delivered + rest) == collections.Counter(full)
      and actual == expected
  )
  missing = sorted(
      (collections.Counter(full) - collections.Counter(delivered + rest))
      .elements()
  )
  print(
      f'num_threads={num_threads} cut={cut}: delivered={len(delivered)}'
      f' resumed={len(rest)} of {len(full)}; never delivered: {missing};'
      f' final aggregate has {len(actual)} of {len(expected)} elements ->'
      f' {"ok" if ok else "MISMATCH"}'
  )
  return ok


def main():
  results = []
  for num_threads in (0, 1, 2):
    for cut in (0, 1, 5):
      results.append(run(num_threads, cut))
  if not all(results):
    print(
        'DEFECT: elements in flight in the worker threads are skipped after a'
        ' restore'
    )
    return 1
  print('no defect observed')
  return 0


if __name__ == '__main__':
  code = main()
  sys.stdout.flush()
  sys.exit(code)
