# Property C03 (results do not depend on the execution strategy: the aggregate
# is the same "over the whole data source or over any number of shards whose
# states are merged"), together with C09 ("shards of shards").
#
# The pipeline's data source is itself a shard of a bigger source (e.g. this
# job owns the second half of the records: `ds.shard(1, 2)`). Run as a whole,
# `p.make()` processes exactly that half. Run as k shards with
# `p.make(shard=io.ShardConfig(i, k))` and merging the k aggregate states, the
# pipeline processes the *whole parent source*: the shard the data source was
# restricted to is thrown away. Even k=1 (`ShardConfig(0, 1)`, "one shard")
# yields a different result from the unsharded run. Both SequenceDataSource
# and ShardedIterable behave this way, whereas the thread fan-out of the same
# pipeline (num_threads=2, which uses `data_source.shard(i, n)`) correctly
# stays inside the half.
#
# Cause: TransformRunner.from_transform (transform.py) shards the data source
# with `data_source.from_state(input_state)`; SequenceDataSource.from_state
# (io.py) replays the recorded chain from the *root* data
# (`SequenceDataSource(self.data, ...)` when `parent is None`) and
# ShardedIterable.from_state replaces the shard state wholesale, so the
# data source's own `_shard_state` is ignored instead of being the parent of
# the requested shard.
import sys

from ml_metrics._src.chainables import io
from ml_metrics._src.chainables import transform


class Collect:

  def create_state(self):
    return []

  def update_state(self, state, x):
    return state + [x]

  def merge_states(self, states):
    return sum(states, [])

  def get_result(self, state):
    return sorted(state)


def check(source_cls):
  print(f'--- {source_cls.__name__}')
  my_part = source_cls(list(range(10))).shard(1, 2)
  print('data source of the pipeline:', list(my_part))

  def pipeline(num_threads=0):
    return (
        transform.TreeTransform(num_threads=num_threads)
        .data_source(my_part)
        .apply(lambda x: x)
        .agg(Collect())
    )

  p = pipeline()
  whole = p.make().iterate()
  expected_batches = sorted(whole)
  expected = whole.agg_result
  print('whole run                  :', expected)

  threaded = pipeline(num_threads=2).make().iterate()
  list(threaded)
  print('num_threads=2              :', threaded.agg_result)
  ok = threaded.agg_result == expected

  for num_shards in (1, 2, 3):
    states, batches = [], []
    for i in range(num_shards):
      it = p.make(shard=io.ShardConfig(i, num_shards)).iterate()
      batches.extend(it)
      states.append(it.agg_state)
    agg = p.make(mode=transform.RunnerMode.AGGREGATE)
    actual = agg.get_result(agg.merge_states(states))
    good = actual == expected and sorted(batches) == expected_batches
    ok &= good
    print(
        f'{num_shards} shard(s), states merged   : {actual} ->'
        f' {"ok" if good else "MISMATCH"}'
    )
  return ok


def main():
  results = [check(io.SequenceDataSource), check(io.ShardedIterable)]
  if not all(results):
    print(
        'DEFECT: sharding the pipeline discards the shard its data source was'
        ' restricted to'
    )
    return 1
  print('no defect observed')
  return 0


if __name__ == '__main__':
  sys.exit(main())
