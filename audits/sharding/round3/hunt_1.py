# Property C03 (results do not depend on the execution strategy: one fused stage
# vs. a chain of named stages).
#
# With ignore_error=True an error raised by the aggregation of a NON-final named
# stage is swallowed by the next stage and turned into a clean end of the
# iteration: the chained pipeline stops after the failing batch, drops all the
# remaining batches and returns an AggregateResult as if the run were complete.
# The same operators fused into one stage raise the error to the caller.
#
# Cause: _RunnerIterator.__next__ (transform.py, repair fc8e610) ends the stage
# after an aggregation error (`self._iterator = iter(())`) and re-raises the
# ValueError of TreeAggregateFn.update_state; the downstream stage runs its
# inputs through iter_ignore_error / map_ignore_error, which treat ValueError as
# a skippable input error, ask the upstream stage for the next element and get
# StopIteration.
import sys

from ml_metrics._src.aggregates import base
from ml_metrics._src.chainables import io
from ml_metrics._src.chainables import transform

T = transform.TreeTransform


class SumAgg(base.AggregateFn):

  def create_state(self):
    return 0

  def update_state(self, state, x):
    if x == 3:
      raise ValueError('cannot aggregate 3')
    return state + x

  def merge_states(self, states):
    return sum(states)


class CountAgg(base.AggregateFn):

  def create_state(self):
    return 0

  def update_state(self, state, x):
    return state + 1

  def merge_states(self, states):
    return sum(states)


def run(pipeline):
  it = pipeline.make().iterate(ignore_error=True)
  outs = []
  try:
    while True:
      try:
        outs.append(next(it))
      except StopIteration as e:
        return 'returned', outs, e.value.agg_result
  except Exception as e:  # pylint: disable=broad-exception-caught
    return 'raised ' + type(e).__name__, outs, None


data = list(range(8))
fused = (
    T.new()
    .data_source(io.SequenceDataSource(data))
    .aggregate(SumAgg(), output_keys='s')
    .add_aggregate(fn=CountAgg(), output_keys='c')
)
chained = (
    T.new(name='a')
    .data_source(io.SequenceDataSource(data))
    .aggregate(SumAgg(), output_keys='s')
    .chain(T.new(name='b').aggregate(CountAgg(), output_keys='c'))
)
fused_run = run(fused)
chained_run = run(chained)
print('data               :', data, '(aggregating the element 3 fails)')
print('fused   (1 stage)  :', fused_run)
print('chained (2 stages) :', chained_run)
status, outs, result = chained_run
if status == 'returned' and len(outs) < len(data) - 1:
  print(
      'DEFECT: the chained run ended silently after'
      f' {len(outs)}/{len(data)} batches with the result {result}, the fused'
      f' run "{fused_run[0]}".'
  )
  sys.exit(1)
print('OK')
sys.exit(0)
