# Property C10 (checkpoint / restore, "for any number of successive
# checkpoints") and C09 (a shard rebuilt from its recorded state).
#
# Every SequenceDataSource.from_state() adds one more level to the recorded
# shard state: SequenceDataSource.shard() always records `parent=self._shard_state`
# - also for the pristine root, whose state is the default ShardConfig() - and
# from_state() re-applies shard() on a fresh root for the outermost recorded
# level. So `it.from_state(s).state != s`, the state of a restored iterator
# grows by one ShardConfig(0, 1, 0) per restore, and after a few hundred
# checkpoint/restore cycles taking or restoring the state fails with
# RecursionError (the deepcopy in _RunnerIterator.state after ~250 cycles, the
# recursive from_state() after ~1000). The elements themselves stay correct until
# then.
import sys

from ml_metrics._src.chainables import io
from ml_metrics._src.chainables import transform


def depth(state):
  n = 0
  while state is not None:
    n, state = n + 1, state.parent
  return n


failed = False

# 1. The state does not survive a restore unchanged.
ds = io.SequenceDataSource(range(10)).shard(1, 2)
it = iter(ds)
next(it)
s0 = it.state
s1 = it.from_state(s0).state
s2 = it.from_state(s0).from_state(s1).state
print('state after 1 element    :', s0)
print('same, after one restore  :', s1)
print('depth of the state after 0, 1, 2 restores:', depth(s0), depth(s1), depth(s2))
if s1 != s0:
  print('DEFECT: it.from_state(s).state != s')
  failed = True

# 2. A pipeline that is checkpointed and restored after every batch.
n = 400
p = (
    transform.TreeTransform.new()
    .data_source(io.SequenceDataSource(range(n)))
    .apply(lambda x: x + 1)
)
it = p.make().iterate()
got = []
try:
  for _ in range(n):
    got.append(next(it))
    it = it.from_state(it.state)
  print(f'{n} checkpoint/restore cycles ok:', got == list(range(1, n + 1)))
except RecursionError as e:
  print(
      f'DEFECT: RecursionError after {len(got)} checkpoint/restore cycles'
      f' ({len(got)} of {n} elements delivered, all correct:'
      f' {got == list(range(1, len(got) + 1))}): {str(e)[:60]}'
  )
  failed = True

sys.exit(1 if failed else 0)
