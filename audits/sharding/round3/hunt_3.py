# Property C03 (results do not depend on the number of worker threads) and, for
# the second part, C10 (a restored iterator continues the run).
#
# A pipeline with a sink() closes the sink as soon as the FIRST copy of the
# operator chain ends, while the other copies are still writing:
#  * with num_threads=N the operator chain (transform.py: _RunnerIterator.iter_fn)
#    is instantiated once per worker thread / per shard, every instance ends
#    with Sink.iterate's `finally: self._actual_fn.close()` on the one shared
#    sink; the worker whose shard is exhausted first closes the sink under the
#    feet of the others. With a file-like sink the run fails with "I/O
#    operation on closed file" (with a tolerant sink close() is called N times
#    and rows are written after close()), the single-threaded run is fine.
#  * the same `finally` runs when the original iterator of a checkpoint is
#    garbage collected: the restored iterator then writes to a closed sink.
# The delays only make the interleaving deterministic.
import gc
import io as std_io
import sys
import time

from ml_metrics._src.chainables import io
from ml_metrics._src.chainables import transform

T = transform.TreeTransform


class FileSink:
  """Behaves like a file: writing after close() is an error."""

  def __init__(self):
    self.file = std_io.StringIO()
    self.rows = []
    self.close_calls = 0

  def write(self, x):
    self.file.write(f'{x}\n')
    self.rows.append(x)

  def close(self):
    self.close_calls += 1
    self.file.close()


def slow_second_half(x):
  if x >= 4:
    time.sleep(0.05)
  return x


def run(num_threads):
  sink = FileSink()
  p = (
      T.new(num_threads=num_threads)
      .data_source(io.SequenceDataSource(range(8)))
      .apply(slow_second_half)
      .sink(sink)
  )
  try:
    outs = sorted(p.make().iterate())
    status = 'ok'
  except Exception as e:  # pylint: disable=broad-exception-caught
    cause = e
    while cause.__cause__ is not None:
      cause = cause.__cause__
    outs, status = None, f'raised {type(cause).__name__}: {cause}'
  return status, outs, sorted(sink.rows), sink.close_calls


failed = False
for num_threads in (0, 2):
  status, outs, rows, close_calls = run(num_threads)
  print(
      f'num_threads={num_threads}: {status}; emitted={outs}; written={rows};'
      f' close() calls={close_calls}'
  )
  if status != 'ok' or rows != list(range(8)) or close_calls != 1:
    failed = True

# Checkpoint / restore, single threaded.
sink = FileSink()
p = T.new().data_source(io.SequenceDataSource(range(8))).sink(sink)
it = p.make().iterate()
got = [next(it) for _ in range(3)]
restored = it.from_state(it.state)
del it
gc.collect()
try:
  got += list(restored)
  print('restore: ok', got, 'written', sink.rows)
except Exception as e:  # pylint: disable=broad-exception-caught
  cause = e
  while cause.__cause__ is not None:
    cause = cause.__cause__
  print(
      'restore: the restored iterator raised'
      f' {type(cause).__name__}: {cause}; close() calls={sink.close_calls},'
      f' written={sink.rows}'
  )
  failed = True

if failed:
  print('DEFECT: the sink is closed while the run still writes to it.')
sys.exit(1 if failed else 0)
