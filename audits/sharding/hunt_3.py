# Property C10 (checkpoint and resume: "restoring from the captured state
# yields exactly the elements not yet delivered (none repeated, none skipped)
# and, for pipelines, a final aggregate equal to the uninterrupted run").
#
# A SequenceDataSource built with ignore_error=True skips the records whose
# random access raises. Once one record was skipped, every checkpoint taken
# afterwards is short by the number of skipped records: the restored iterator
# re-delivers elements that were already delivered, and a pipeline aggregate
# counts them twice. The same happens when the data source itself raises and
# the *pipeline* skips the error (iterate(ignore_error=True)), or when the
# caller catches the error and keeps iterating (which SequenceDataSource
# explicitly supports: "iterating by random access so that the iterator is
# continuable after exception").
#
# Cause: SequenceIterator.__next__ (io.py) counts the *delivered* elements
# (`self._index += 1` only after a successful next), while the underlying
# _RangeIterator also advanced over the skipped/raising indices. `state`
# derives start_index from that count, so it points before the real position.
import sys

from ml_metrics._src.chainables import io
from ml_metrics._src.chainables import transform


class Records:
  """A random accessible source where some records are corrupted."""

  def __init__(self, n, corrupted):
    self._n = n
    self._corrupted = set(corrupted)

  def __len__(self):
    return self._n

  def __getitem__(self, i):
    if isinstance(i, slice):
      return [self[j] for j in range(*i.indices(self._n))]
    if i in self._corrupted:
      raise ValueError(f'corrupted record {i}')
    return i


class Collect:

  def create_state(self):
    return []

  def update_state(self, state, x):
    return state + [x]

  def merge_states(self, states):
    return sum(states, [])

  def get_result(self, state):
    return sorted(state)


def check_source():
  print('--- SequenceDataSource(ignore_error=True), records 2 and 5 corrupted')
  ds = io.SequenceDataSource(Records(10, [2, 5]), ignore_error=True)
  full = list(ds)
  print('uninterrupted:', full)
  ok = True
  for cut in range(len(full) + 1):
    it = ds.iterate()
    delivered = [next(it) for _ in range(cut)]
    state = it.state
    rest = list(it.from_state(state))
    good = delivered + rest == full
    ok &= good
    print(
        f'cut={cut}: delivered={delivered} start_index={state.start_index}'
        f' resumed={rest} -> {"ok" if good else "MISMATCH"}'
    )
  return ok


def check_pipeline(source_ignores, pipeline_ignores):
  print(
      f'--- pipeline with aggregate, data source ignore_error={source_ignores},'
      f' iterate(ignore_error={pipeline_ignores}), record 2 corrupted'
  )
  ds = io.SequenceDataSource(Records(6, [2]), ignore_error=source_ignores)
  p = (
      transform.TreeTransform()
      .data_source(ds)
      .apply(lambda x: x + 100)
      .agg(Collect())
  )
  full_it = p.make().iterate(ignore_error=pipeline_ignores)
  full = list(full_it)
  expected = full_it.agg_result
  print('uninterrupted:', full, expected)
  ok = True
  for cut in range(len(full) + 1):
    it = p.make().iterate(ignore_error=pipeline_ignores)
    delivered = [next(it) for _ in range(cut)]
    restored = (
        p.make().iterate(ignore_error=pipeline_ignores).from_state(it.state)
    )
    rest = list(restored)
    good = delivered + rest == full and restored.agg_result == expected
    ok &= good
    print(
        f'cut={cut}: delivered={delivered} resumed={rest} final aggregate='
        f'{restored.agg_result} -> {"ok" if good else "MISMATCH"}'
    )
  return ok


def main():
  results = [
      check_source(),
      check_pipeline(source_ignores=True, pipeline_ignores=False),
      check_pipeline(source_ignores=False, pipeline_ignores=True),
  ]
  if not all(results):
    print(
        'DEFECT: checkpoints taken after a skipped record repeat already'
        ' delivered elements'
    )
    return 1
  print('no defect observed')
  return 0


if __name__ == '__main__':
  sys.exit(main())
