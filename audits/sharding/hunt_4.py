# Property C10 (checkpoint and resume: "restoring from the captured state
# yields exactly the elements not yet delivered (none repeated, none skipped)
# and, for pipelines, a final aggregate equal to the uninterrupted run").
#
# The data source yields batches of 2 rows and the pipeline re-batches them to
# 3 rows (`apply(..., batch_size=3)`, same with `fn_batch_size=3, batch_size=2`), single
# threaded. After the first output batch [0, 1, 2] was delivered, rows 0..3
# were read from the source and row 3 sits in the re-batching buffer. The
# checkpoint taken at this point records "2 source batches consumed" and the
# delivered aggregate, but not the buffered row: the restored run delivers
# [4, 5, 6], [7, 8, 9] and row 3 is never delivered nor aggregated. A
# checkpoint taken after the last full batch loses the trailing partial batch
# ([9]) in the same way.
#
# Cause: _RunnerIterator.state (transform.py) is only (source iterator
# positions, aggregate state); the rows held by iter_utils.rebatched_args
# between the source and the consumer are in neither, and from_state rebuilds
# the operator chain with empty buffers.
import sys

from ml_metrics._src.chainables import io
from ml_metrics._src.chainables import transform


class Collect:

  def create_state(self):
    return []

  def update_state(self, state, x):
    return state + list(x)

  def merge_states(self, states):
    return sum(states, [])

  def get_result(self, state):
    return sorted(state)


def check(**batch_kwargs):
  print(f'--- source batches of 2 rows, apply(identity, {batch_kwargs})')
  ds = io.SequenceDataSource([[0, 1], [2, 3], [4, 5], [6, 7], [8, 9]])
  p = (
      transform.TreeTransform()
      .data_source(ds)
      .apply(fn=lambda x: x, **batch_kwargs)
      .agg(Collect())
  )
  full_it = p.make().iterate()
  full = list(full_it)
  expected = full_it.agg_result
  print('uninterrupted:', full, expected)
  ok = True
  for cut in range(len(full) + 1):
    it = p.make().iterate()
    delivered = [next(it) for _ in range(cut)]
    restored = p.make().iterate().from_state(it.state)
    rest = list(restored)
    rows = sorted(sum(delivered + rest, []))
    good = rows == expected and restored.agg_result == expected
    ok &= good
    print(
        f'cut={cut}: delivered={delivered} resumed={rest} final aggregate='
        f'{restored.agg_result} -> {"ok" if good else "MISMATCH"}'
    )
  return ok


def main():
  results = [check(batch_size=3), check(fn_batch_size=3, batch_size=2)]
  if not all(results):
    print('DEFECT: rows buffered by the re-batching are lost after a restore')
    return 1
  print('no defect observed')
  return 0


if __name__ == '__main__':
  sys.exit(main())
