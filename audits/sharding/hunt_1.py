# Property C10 (checkpoint and resume continue exactly where iteration stopped).
#
# A pipeline made of two named stages ('a' feeding 'b'), each with its own
# aggregate, is checkpointed after `cut` batches with `it.state` and restored
# with `p.make().iterate().from_state(state)` (the idiom of transform_test).
# The property requires "a final aggregate equal to the uninterrupted run".
# Observed: after the restored iterator is exhausted, the aggregate of the
# upstream stage 'a' is frozen at its checkpoint value (it never sees the
# elements delivered after the restore), only the last stage's aggregate is
# right.
#
# Cause: _ChainedRunnerIterator.from_state (transform.py) restores every stage
# iterator independently: `[it.from_state(state[it.name]) for it in iterators]`.
# The restored stage 'b' rebuilds *its own private copy* of stage 'a' through
# MultiplexIterator.from_state (data_source.from_state(...)), while the stage 'a'
# object registered in the restored chain (the one agg_state/agg_result read
# from) is a different iterator that nobody ever advances.
import sys

from ml_metrics._src.chainables import io
from ml_metrics._src.chainables import transform


class Collect:
  """A trivially mergeable aggregate: the sorted multiset of its inputs."""

  def create_state(self):
    return []

  def update_state(self, state, x):
    return state + [x]

  def merge_states(self, states):
    return sum(states, [])

  def get_result(self, state):
    return sorted(state)


def pipeline():
  ds = io.SequenceDataSource(range(6))
  stage_a = (
      transform.TreeTransform(name='a')
      .data_source(ds)
      .apply(lambda x: x + 1)
      .agg(Collect(), output_keys='seen_by_a')
  )
  stage_b = (
      transform.TreeTransform(name='b')
      .apply(lambda x: x * 10)
      .agg(Collect(), output_keys='seen_by_b')
  )
  return stage_a.chain(stage_b)


def main():
  p = pipeline()
  full_it = p.make().iterate()
  full = list(full_it)
  expected = full_it.agg_result
  print('uninterrupted run :', full, expected)

  failed = False
  for cut in range(len(full) + 1):
    it = p.make().iterate()
    delivered = [next(it) for _ in range(cut)]
    state = it.state
    restored = p.make().iterate().from_state(state)
    rest = list(restored)
    actual = restored.agg_result
    ok = delivered + rest == full and actual == expected
    failed |= not ok
    print(
        f'cut={cut}: delivered={delivered} resumed={rest} final aggregate='
        f'{actual} -> {"ok" if ok else "MISMATCH"}'
    )
  if failed:
    print('DEFECT: the aggregate of the upstream stage is lost after a restore')
    return 1
  print('no defect observed')
  return 0


if __name__ == '__main__':
  sys.exit(main())
