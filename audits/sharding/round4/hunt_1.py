# Property C03 (results do not depend on fusing / chaining of the same operators).
#
# Incomplete repair of de4c588 / 43b8ec7 ("a stage stopped by an aggregation
# error does not end like an exhausted one"): the guard only remembers
# AGGREGATION errors. Any other error that escapes the operators of an upstream
# named stage while ignore_error=True (here: the ValueError of `_get_outputs`
# for a function result of the wrong arity, and the TypeError of the output
# re-batcher for a result that is not a batch - both are raised outside of the
# per-element `map_ignore_error`) kills the `iter_fn` generator of that stage.
# The downstream stage skips the error as an element error, asks again, gets
# StopIteration from the dead generator and takes it for the end of the data:
# the chained run ends NORMALLY with an aggregate over the elements in front of
# the failing one (everything behind it is silently dropped), while the same
# operators fused into one stage raise the error.
import sys

sys.path.insert(0, '/tmp/hunt4-sharding')

from absl import logging

logging.set_verbosity(logging.FATAL)

from ml_metrics._src.aggregates import base
from ml_metrics._src.chainables import io
from ml_metrics._src.chainables import transform as T


class SumAgg(base.Aggregatable):

  def create_state(self):
    return 0

  def update_state(self, state, x):
    return state + sum(x) if isinstance(x, list) else state + x

  def merge_states(self, states):
    return sum(states)

  def get_result(self, state):
    return state


def wrong_arity(x):
  # Element 2 returns three values for two output keys.
  return (x, x, x) if x == 2 else (x, 10 * x)


def not_a_batch(x):
  # Element 2 returns a scalar where a batch (list) is re-batched.
  return 10 * x if x == 2 else [10 * x]


def pipeline(scenario, chained):
  ds = io.SequenceDataSource(list(range(6)))
  first = T.TreeTransform.new(name='A').data_source(ds)
  if scenario == 'wrong arity':
    first = first.apply(wrong_arity, output_keys=('a', 'b'))
  else:
    first = first.apply(not_a_batch, output_keys='b', batch_size=1)
  second = T.TreeTransform.new(name='B' if chained else 'A').aggregate(
      SumAgg(), input_keys='b', output_keys='s'
  )
  return first.chain(second)


def run(scenario, chained):
  it = pipeline(scenario, chained).make().iterate(ignore_error=True)
  n = 0
  try:
    while True:
      next(it)
      n += 1
  except StopIteration as e:
    return n, 'ended normally', e.value.agg_result
  except Exception as e:  # pylint: disable=broad-exception-caught
    return n, 'raised', f'{type(e).__name__}: {e}'


defect = False
for scenario in ('wrong arity', 'not a batch'):
  fused = run(scenario, chained=False)
  chained = run(scenario, chained=True)
  print(f'[{scenario}] 6 elements, element 2 fails outside the skippable call')
  print('  fused   (one stage "A")     :', fused)
  print('  chained (stages "A" -> "B") :', chained)
  print('  aggregate of all elements but the failing one would be s=130,')
  print('  of all six s=150.')
  if fused[1] != chained[1]:
    defect = True
    print('  -> DEFECT: the chained run ends normally with a partial aggregate')
    print('     (elements 3, 4, 5 silently dropped), the fused twin raises.')

sys.exit(1 if defect else 0)
