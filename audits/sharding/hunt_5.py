# Property C09 (sharding partitions a data source exactly: shards "together
# contain every element exactly once"; "a sequence merged from several
# sub-sequences ... iterates exactly like their concatenation", for all
# read-ahead sizes).
#
# When a sub-sequence answers a slice lazily (a generator, or a nested
# MergedSequences, whose slices are iterators) and one record fails to load,
# the read-ahead of _RangeIterator delivers the records *before* the failing
# one several times: with the default read-ahead of 64, records 0..4 of a 10
# record source whose record 5 is corrupted are delivered 3 times by slicing
# plus once more one by one: 0,1,2,3,4,0,1,2,3,4,0,1,2,3,4,4,<error>,6,... With
# SequenceDataSource(ignore_error=True) the duplicates are produced silently,
# so a "partition" of the source contains elements more than once. The same
# source answering slices eagerly (a list) yields every record exactly once.
#
# Cause: _RangeIterator.__next__ (iter_utils.py) does
# `self._cache.extend(self.data[self.i : self.i + batch_size])`; when the lazy
# slice raises half way, the records already appended stay in the cache but
# `self.i` is not advanced, the except branch only shrinks the batch size, the
# `while not self._cache` loop exits because the cache is not empty, and the
# same range is read again once the cache is drained.
import collections
import sys

from ml_metrics._src.chainables import io
from ml_metrics._src.utils import iter_utils


class Records:
  """A random accessible source, record `corrupted` cannot be loaded."""

  def __init__(self, n, corrupted, lazy):
    self._n = n
    self._corrupted = set(corrupted)
    self._lazy = lazy

  def __len__(self):
    return self._n

  def _read(self, i):
    if i in self._corrupted:
      raise ValueError(f'corrupted record {i}')
    return i

  def __getitem__(self, i):
    if isinstance(i, slice):
      it = (self._read(j) for j in range(*i.indices(self._n)))
      return it if self._lazy else list(it)
    return self._read(i)


def duplicates(elements):
  return {k: v for k, v in collections.Counter(elements).items() if v > 1}


def main():
  failed = False
  expected = [0, 1, 2, 3, 4, 6, 7, 8, 9]

  eager = io.SequenceDataSource(
      Records(10, [5], lazy=False), ignore_error=True
  )
  actual = list(eager)
  print('eager slices            :', actual)
  failed |= actual != expected

  lazy = io.SequenceDataSource(Records(10, [5], lazy=True), ignore_error=True)
  actual = list(lazy)
  print('lazy slices             :', actual, 'duplicates:', duplicates(actual))
  failed |= actual != expected

  # Only library types: a merged sequence of a merged sequence.
  inner = iter_utils.MergedSequences([[-2, -1], Records(10, [5], lazy=False)])
  nested = io.SequenceDataSource.from_sequences([inner], ignore_error=True)
  actual = list(nested)
  print('nested MergedSequences  :', actual, 'duplicates:', duplicates(actual))
  failed |= actual != [-2, -1] + expected

  # The shards of the lazily sliced source are not a partition either.
  big = io.SequenceDataSource(Records(200, [150], lazy=True), ignore_error=True)
  shards = [list(big.shard(i, 2)) for i in range(2)]
  merged = sum(shards, [])
  dups = duplicates(merged)
  print(
      f'2 shards of 200 records : {len(merged)} elements delivered,'
      f' {len(set(merged))} distinct, {len(dups)} records delivered more than'
      ' once'
  )
  failed |= sorted(merged) != [i for i in range(200) if i != 150]

  if failed:
    print('DEFECT: records before a failing record are delivered repeatedly')
    return 1
  print('no defect observed')
  return 0


if __name__ == '__main__':
  sys.exit(main())
