import sys
sys.path.insert(0, '/tmp/hunt4-distributed/hunt_stub')
sys.path.insert(1, '/tmp/hunt4-distributed')
import courier
assert 'hunt_stub' in courier.__file__
import ml_metrics
assert ml_metrics.__file__.startswith('/tmp/hunt4-distributed')
