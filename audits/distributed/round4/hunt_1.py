"""C06: a non-retriable application error of a shard is retried for ever instead of surfacing.

WorkerPool.iterate() classifies the exception of a finished shard task with
`isinstance(exc, TimeoutError) or is_timeout(exc)`, and is_timeout() is
`getattr(e, 'code', 0) == 4`. The exception of the shard is the application's
own exception object (it travels pickled inside the batch and is re-raised by
CourierClient.async_iterate), so any application exception that carries
`code == 4` - e.g. the xml.etree ParseError 'not well-formed (invalid token)'
raised by a data source for a malformed record - is taken for an expired deadline: the shard is
re-run again and again (default retry budget of
sharded_pipelines_as_iterator: 999999) and the caller never sees the error.
The same error without the attribute (control run) surfaces at once as
RuntimeError('Failed at ...'). Commit 3983445 repaired exactly this confusion
in CourierClient.get_result only.
"""
import os, sys
sys.path.insert(0, os.path.join(os.path.dirname(os.path.abspath(__file__)), 'hunt_stub'))
sys.path.insert(1, os.path.dirname(os.path.abspath(__file__)))
import logging, threading, time
from xml.etree import ElementTree
import courier  # the in-process stub
from absl import logging as absl_logging
absl_logging.set_verbosity(absl_logging.FATAL)
logging.disable(logging.CRITICAL)
import ml_metrics
assert ml_metrics.__file__.startswith(os.path.dirname(os.path.abspath(__file__)))
from ml_metrics._src.chainables import courier_server, courier_worker, orchestrate, transform

RECORDS = ['<a>%d</a>' % i for i in range(40)]
RECORDS[17] = '<a>\x01</a>'  # malformed: ParseError with code == 4


def parse_xml(x):
  return ElementTree.fromstring(x).text


def parse_plain(x):
  if '\x01' in x:
    raise ValueError('not well-formed (invalid token)')
  return x


def read_records(fn, shard_index, num_shards):
  # A data source that parses its records while reading them.
  for record in RECORDS[shard_index::num_shards]:
    yield fn(record)


def pipeline(fn, shard_index=0, num_shards=1):
  return (
      transform.TreeTransform.new(name='ds')
      .data_source(read_records(fn, shard_index, num_shards))
      .apply(fn=len)
  )


inits = []
courier.HOOKS.append(
    lambda addr, method, a, k: inits.append(addr) if method == 'init_generator' else None
)
servers = [courier_server.PrefetchedCourierServer(f'h1_s{i}') for i in range(2)]
for s in servers:
  s.start()
pool = courier_worker.WorkerPool([s.address for s in servers])


def run(fn, outcome):
  try:
    n = sum(1 for _ in orchestrate.sharded_pipelines_as_iterator(pool, pipeline, fn, num_shards=4))
    outcome.append(f'returned {n} batches')
  except BaseException as e:  # pylint: disable=broad-exception-caught
    outcome.append(f'raised {type(e).__name__}: {e} (cause: {e.__cause__!r})')


try:
  ElementTree.fromstring(RECORDS[17])
except ElementTree.ParseError as e:
  print(f'the application error: {type(e).__name__}({e}), code={e.code}')

control = []
t = threading.Thread(target=run, args=(parse_plain, control), daemon=True)
t.start(); t.join(30)
print(f'control (ValueError in shard 1): {control}, init_generator calls: {len(inits)}')

del inits[:]
outcome = []
t = threading.Thread(target=run, args=(parse_xml, outcome), daemon=True)
t.start(); t.join(8)
n_inits = len(inits)
print(f'ParseError(code=4) in shard 1: after 8s outcome={outcome}, still running={t.is_alive()}, '
      f'init_generator calls so far: {n_inits} (4 shards)')
defect = t.is_alive() or not outcome or 'RuntimeError' not in outcome[0]
if defect:
  print('DEFECT: the application error did not surface, the failing shard is retried as a timeout.')
else:
  print('OK: the application error surfaced as an error of the run.')
sys.stdout.flush()
os._exit(1 if defect else 0)
