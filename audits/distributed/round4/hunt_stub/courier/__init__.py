"""Minimal in-process stub of DeepMind courier for auditing."""
import threading
import time
from concurrent import futures

_SERVERS = {}
_LOCK = threading.Lock()
_POOL = futures.ThreadPoolExecutor(max_workers=64)
_PORT = [10000]
# hooks: fn(address, method, args, kwargs) -> optional action
HOOKS = []


class CourierError(Exception):
  def __init__(self, msg, code):
    super().__init__(msg)
    self.code = code
    self.message = msg


class Server:
  def __init__(self, name=None, port=None):
    with _LOCK:
      _PORT[0] += 1
      self._port = port or _PORT[0]
    self._name = name
    self._handlers = {}
    self.has_started = False

  @property
  def address(self):
    return self._name or f'localhost:{self._port}'

  def Bind(self, name, fn):
    self._handlers[name] = fn

  def Start(self):
    with _LOCK:
      _SERVERS[self.address] = self
    self.has_started = True

  def Stop(self):
    with _LOCK:
      if _SERVERS.get(self.address) is self:
        del _SERVERS[self.address]
    self.has_started = False


class _Futures:
  def __init__(self, client):
    self._client = client

  def __getattr__(self, method):
    def call(*args, **kwargs):
      return self._client._call(method, args, kwargs)
    return call


class Client:
  def __init__(self, address, call_timeout=None):
    self.address = address
    self.call_timeout = call_timeout or 0
    self.futures = _Futures(self)

  def _call(self, method, args, kwargs):
    fut = futures.Future()
    timeout = self.call_timeout
    address = self.address
    for h in list(HOOKS):
      h(address, method, args, kwargs)

    def _set(kind, value):
      try:
        if kind == 'r':
          fut.set_result(value)
        else:
          fut.set_exception(value)
      except futures.InvalidStateError:
        pass

    def run():
      with _LOCK:
        server = _SERVERS.get(address)
      if server is None or not server.has_started:
        # dead server: nothing answers; the deadline (if any) fires.
        return
      try:
        _set('r', server._handlers[method](*args, **kwargs))
      except Exception as e:  # pylint: disable=broad-exception-caught
        _set('e', e)

    _POOL.submit(run)
    if timeout:
      def expire():
        _set('e', CourierError(f'Deadline Exceeded calling {method}', 4))
      t = threading.Timer(timeout, expire)
      t.daemon = True
      t.start()
    return fut

  def __getattr__(self, method):
    if method.startswith('_'):
      raise AttributeError(method)
    def call(*args, **kwargs):
      return self._call(method, args, kwargs).result()
    return call
