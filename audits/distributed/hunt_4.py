# Property C20 (worker ownership): "At any time at most one pool owns a given
# worker ..." - a worker on which a pool is still running a task has to stay
# owned by that pool (orchestrate_test.test_shared_worker_pool_run: "The worker
# is not acquirable while blocked").
#
# orchestrate.as_completed() gives up the ownership of workers that are still
# *running* its tasks as soon as the task iterator is exhausted: in the
# "Releasing unused workers" block of _as_completed()
#     unused_workers = acquired - running - reserved
#     worker_pool.release_all(unused_workers)
# `unused_workers` is the empty set whenever every acquired worker is busy, and
# WorkerPool.release_all() treats an empty argument as "all workers"
# (`workers = workers or self._workers`), so the busy workers are released too.
# With a single worker and a single task this happens right after the submit.
# A second pool sharing the Worker can then acquire it and run its own tasks on
# it concurrently although pool A's as_completed() is still in progress.
import logging
import os
import sys
import threading
import time

logging.disable(logging.CRITICAL)
sys.path.insert(0, '/tmp/hunt-distributed/hunt_stub')
import courier  # pylint: disable=g-import-not-at-top,unused-import

from ml_metrics._src.chainables import courier_server
from ml_metrics._src.chainables import courier_worker
from ml_metrics._src.chainables import lazy_fns
from ml_metrics._src.chainables import orchestrate


def timed(name, secs):
  start = time.time()
  time.sleep(secs)
  return name, start, time.time()


def main() -> int:
  server = courier_server.CourierServer('hunt4_worker')
  server.start()
  pool_a = courier_worker.WorkerPool([server.address], max_parallelism=2)
  pool_a.wait_until_alive()
  pool_b = courier_worker.WorkerPool(pool_a.all_workers)
  worker = pool_a.all_workers[0]
  assert pool_b.all_workers[0] is worker

  results_a, results_b = [], []
  thread_a = threading.Thread(
      target=lambda: results_a.extend(
          orchestrate.as_completed(pool_a, [lazy_fns.trace(timed)('A', 3.0)])
      )
  )
  thread_a.start()
  time.sleep(0.5)
  running = len(worker.pendings)
  locked_by_a = worker.is_locked(pool_a)
  print(f'pool A task in flight on the worker: {running} pending call(s)')
  print('worker still owned by pool A while its task runs:', locked_by_a)

  # Pool B must not be able to take over the worker now.
  acquired_by_b = worker.acquire_by(pool_b)
  print('pool B could acquire the busy worker           :', acquired_by_b)
  worker.release(pool_b)
  results_b.extend(
      orchestrate.as_completed(pool_b, [lazy_fns.trace(timed)('B', 0.2)])
  )
  thread_a.join()
  (_, a_start, a_end), (_, b_start, b_end) = results_a[0], results_b[0]
  overlap = a_start < b_start and b_end < a_end
  print(
      f"pool A's task ran for t=[0.00, {a_end - a_start:.2f}], pool B's task"
      f' ran for t=[{b_start - a_start:.2f}, {b_end - a_start:.2f}] on the same'
      ' worker'
  )
  print("B's task ran inside A's task:", overlap)
  if not locked_by_a or acquired_by_b or overlap:
    print(
        'DEFECT: as_completed released a worker that was still running its'
        ' task; another pool acquired and used it meanwhile.'
    )
    return 1
  print('no defect observed')
  return 0


if __name__ == '__main__':
  rc = main()
  sys.stdout.flush()
  os._exit(rc)
