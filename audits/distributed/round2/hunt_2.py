# Property C15: "... Initialising a new generator or shutting down stops the
# previous one ..." (also C20: a worker that announced its death keeps serving).
#
# CourierServer.run_until_shutdown() is the public blocking entry point (it
# builds and starts the courier server itself; start() merely runs it in a
# thread). When it is called directly, a shutdown request makes it return, but
# _shutdown_server() does nothing: it is guarded by `self.has_started`, and
# has_started also requires `self._thread is not None`, which only start()
# sets. So after "shutdown":
#   * the is_alive=False heartbeat has been pushed to the clients, but
#   * _shutdown_callback (PrefetchedCourierServer._stop_prefetch) never runs:
#     the prefetch thread keeps pulling the generator,
#   * the courier server is never stopped: next_batch_from_generator keeps
#     delivering elements of the generator that should have been stopped.
# With start() the same shutdown stops the generator and the server.
# Expected: both modes stop the prefetching and the server.
import os
import sys
import threading
import time

ROOT = os.path.dirname(os.path.abspath(__file__))
sys.path.insert(0, os.path.join(ROOT, 'hunt_stub'))
sys.path.insert(0, ROOT)
from absl import logging  # pylint: disable=g-import-not-at-top

logging.set_verbosity(logging.FATAL)
from ml_metrics._src.chainables import courier_server
from ml_metrics._src.chainables import courier_worker
from ml_metrics._src.chainables import lazy_fns

def endless(mode):
  del mode
  i = 0
  while True:
    time.sleep(0.01)
    yield i
    i += 1


def scenario(mode):
  server = courier_server.PrefetchedCourierServer(f'hunt2_{mode}')
  if mode == 'direct':
    supervisor = threading.Thread(target=server.run_until_shutdown, daemon=True)
    supervisor.start()
  else:
    supervisor = server.start()
  worker = courier_worker.Worker(server.address)
  worker.wait_until_alive(deadline_secs=10)
  init = worker.call(
      lazy_fns.trace(endless)(mode), courier_method='init_generator'
  )
  assert init.result() is None
  first = lazy_fns.maybe_make(worker.next_batch_from_generator(2).result())
  # The client asks the worker to shut down.
  worker._client.futures.shutdown().result()
  supervisor.join(10)
  time.sleep(0.3)
  enqueue_thread = server._enqueue_thread
  still_serving = server._server is not None and server._server.has_started
  later = None
  if still_serving:
    later = lazy_fns.maybe_make(worker.next_batch_from_generator(2).result())
  print(
      f'[{mode}] run_until_shutdown returned: {not supervisor.is_alive()};'
      f' first batch {first}; courier server still serving: {still_serving};'
      f' prefetch thread alive: {enqueue_thread.is_alive()}; next_batch after'
      f' shutdown: {later}'
  )
  return still_serving or enqueue_thread.is_alive()


ok_mode_broken = scenario('start')
direct_mode_broken = scenario('direct')
if direct_mode_broken and not ok_mode_broken:
  print(
      'DEFECT: after run_until_shutdown() returned, the generator is still'
      ' prefetched and served (shutdown did not stop it, the server was not'
      ' stopped).'
  )
  os._exit(1)
print('OK' if not direct_mode_broken else 'both modes broken')
os._exit(1 if direct_mode_broken else 0)
