# Properties C16 ("... delivers exactly one final aggregate result") and C06
# ("non-retriable errors surface to the caller as errors, never as silently
# missing results").
#
# orchestrate.sharded_pipelines_as_iterator() merges the shard states and
# computes the final result in a daemon thread (compute_result) that nobody
# supervises. When agg_fn.merge_states() / get_result() raises there - e.g. for
# an aggregate without merge_states: base.Aggregatable.merge_states and the
# library's own AggFnNested.merge_states raise NotImplementedError ("only
# required for distributed implementations") - the exception dies with the
# thread: the batch iterator ends normally, no error reaches the caller, and
# `result_queue.get()` (the documented way to fetch the aggregate) blocks for
# ever. The same pipeline works in process, and run_pipeline_interleaved()
# reports the merge error ("stage ... failed").
# Expected: the failure is raised by the iterator (or delivered through the
# result queue) instead of a silently missing aggregate.
import os
import queue
import sys
import threading

ROOT = os.path.dirname(os.path.abspath(__file__))
sys.path.insert(0, os.path.join(ROOT, 'hunt_stub'))
sys.path.insert(0, ROOT)
from absl import logging  # pylint: disable=g-import-not-at-top

logging.set_verbosity(logging.FATAL)
threading.excepthook = lambda args: print(
    f'  [exception lost in thread "{args.thread.name}":'
    f' {args.exc_type.__name__}]'
)
import numpy as np
from ml_metrics._src.aggregates import base
from ml_metrics._src.chainables import courier_server
from ml_metrics._src.chainables import courier_worker
from ml_metrics._src.chainables import orchestrate
from ml_metrics._src.chainables import transform


class Total(base.AggregateFn):
  """A legal aggregate for in-process runs: merge_states is not overridden."""

  def create_state(self):
    return 0

  def update_state(self, state, x):
    return state + int(np.sum(x))

  def get_result(self, state):
    return state


def batches(shard_index=0, num_shards=1):
  for i in range(20):
    if i % num_shards == shard_index:
      yield np.arange(i * 4, i * 4 + 4)


def pipeline(shard_index=0, num_shards=1):
  return (
      transform.TreeTransform.new(name='datasource')
      .data_source(batches(shard_index, num_shards))
      .aggregate(output_keys='total', fn=Total())
  )


it = pipeline().make().iterate()
n_in_process = sum(1 for _ in it)
print('in process:', n_in_process, 'batches, aggregate', dict(it.agg_result))

names = ['hunt5_w0', 'hunt5_w1']
servers = [courier_server.PrefetchedCourierServer(n) for n in names]
for s in servers:
  s.start()
pool = courier_worker.WorkerPool(names)
for w in pool.all_workers:
  w.wait_until_alive(deadline_secs=10)

result_queue = queue.SimpleQueue()
error = None
n = 0
try:
  for _ in orchestrate.sharded_pipelines_as_iterator(
      pool, pipeline, result_queue=result_queue, num_shards=2
  ):
    n += 1
except Exception as e:  # pylint: disable=broad-exception-caught
  error = e
print(f'sharded: iterator delivered {n} batches, raised: {error!r}')
try:
  aggregate = result_queue.get(timeout=5)
  print('sharded: aggregate', aggregate.agg_result)
except queue.Empty:
  aggregate = None
  print('sharded: NO aggregate result after 5s (result_queue.get() blocks).')
if error is None and aggregate is None:
  print(
      'DEFECT: the merge error was swallowed by the compute_result thread: no'
      ' error and no final aggregate result.'
  )
  os._exit(1)
print('OK: the caller got an error or the aggregate.')
os._exit(0)
