"""Minimal in-process stand-in for DeepMind's courier (for the audit only).

* courier.Server(name, port=None): Bind / Start / Stop / address / has_started.
* courier.Client(address, call_timeout=None): client.futures.<method>(*a, **kw)
  returns a concurrent.futures.Future.
* Arguments and results are pickled across the "wire" (so objects are copied).
* A handler keeps running after the deadline of the client expired (as gRPC).
* A call to an address without a started server waits until the server shows
  up or the deadline expires (wait_for_ready semantics); without a deadline it
  waits forever.
* Test hooks: courier.hooks (dict address -> callable(method, phase) ) can
  inject delays: phase is 'before' (before the handler) or 'after' (after the
  handler, before the reply is delivered).
"""

from __future__ import annotations

from concurrent import futures
import itertools
import pickle
import threading
import time

_servers: dict[str, 'Server'] = {}
_servers_lock = threading.Lock()
_port = itertools.count(20000)
hooks = {}
call_log = []  # (address, method) of every call delivered to a handler.


class DropRequest(Exception):
  """Raised by a hook: the request (or its reply) is lost on the wire."""


class StatusError(Exception):

  def __init__(self, message, code):
    super().__init__(message)
    self.message = message
    self.code = code


def _deadline_exceeded(address, method):
  return StatusError(f'Deadline Exceeded calling {method}@{address}', 4)


class Server:

  def __init__(self, name=None, port=None):
    self._name = name
    self._port = port or next(_port)
    self._handlers = {}
    self._started = False
    self._pool = futures.ThreadPoolExecutor(max_workers=32)

  @property
  def address(self):
    return self._name or f'localhost:{self._port}'

  @property
  def has_started(self):
    return self._started

  def Bind(self, name, fn):  # pylint: disable=invalid-name
    self._handlers[name] = fn

  def Start(self):  # pylint: disable=invalid-name
    with _servers_lock:
      _servers[self.address] = self
    self._started = True

  def Stop(self):  # pylint: disable=invalid-name
    with _servers_lock:
      if _servers.get(self.address) is self:
        del _servers[self.address]
    self._started = False

  def Join(self):  # pylint: disable=invalid-name
    pass


class _Futures:

  def __init__(self, client):
    self._client = client

  def __getattr__(self, method):
    def call(*args, **kwargs):
      return self._client._call(method, args, kwargs)  # pylint: disable=protected-access

    return call


class Client:

  def __init__(self, address, call_timeout=None, **unused_kwargs):
    self.address = address
    self.call_timeout = call_timeout or None
    self.futures = _Futures(self)

  def __getattr__(self, method):
    if method.startswith('_'):
      raise AttributeError(method)

    def call(*args, **kwargs):
      return self._call(method, args, kwargs).result()

    return call

  def _call(self, method, args, kwargs):
    result = futures.Future()
    payload = pickle.dumps((args, kwargs))
    deadline = (
        time.time() + self.call_timeout if self.call_timeout else float('inf')
    )
    lock = threading.Lock()

    def set_once(value=None, exc=None):
      with lock:
        if result.done():
          return
        if exc is not None:
          result.set_exception(exc)
        else:
          result.set_result(value)

    def run():
      server = None
      while time.time() < deadline:
        with _servers_lock:
          server = _servers.get(self.address)
        if server is not None and server.has_started:
          break
        server = None
        if result.cancelled():
          return
        time.sleep(0.005)
      if server is None:
        set_once(exc=_deadline_exceeded(self.address, method))
        return

      def handle():
        try:
          hook = hooks.get(self.address)
          if hook:
            hook(method, 'before')
          fn = server._handlers[method]  # pylint: disable=protected-access
          a, k = pickle.loads(payload)
          call_log.append((self.address, method))
          value = pickle.loads(pickle.dumps(fn(*a, **k)))
          if hook:
            hook(method, 'after')
          if not server.has_started:
            return  # the reply of a stopped server is lost.
          set_once(value)
        except DropRequest:
          return
        except Exception as e:  # pylint: disable=broad-exception-caught
          if not server.has_started:
            return
          set_once(exc=StatusError(f'{type(e).__name__}: {e}', 2))

      handler_state = server._pool.submit(handle)  # pylint: disable=protected-access
      del handler_state
      while not result.done():
        if time.time() >= deadline:
          set_once(exc=_deadline_exceeded(self.address, method))
          return
        time.sleep(0.002)

    threading.Thread(target=run, daemon=True).start()
    return result
