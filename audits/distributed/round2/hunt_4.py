# Properties C16 (fault-free distributed execution equals in-process execution)
# and C20 (at most one pool uses/owns a worker at a time); also C15 ("never
# mixes elements of two generators").
#
# Two sharded runs (orchestrate.sharded_pipelines_as_iterator ->
# WorkerPool.iterate) that share workers - two pools over the same servers, or
# two threads using one pool - silently corrupt each other WITHOUT ANY FAULT:
# WorkerPool.iterate() never acquires the workers it uses. It picks them with
# idle_workers() (a pure check: is_available / has_capacity / is_alive, despite
# its docstring "Attempts to acquire ...") and the only exclusion is the
# "artificial pending state" that CourierClient.async_iterate() inserts later,
# when its coroutine gets scheduled on the event-loop thread. Between the check
# and that insertion the other run sees the same worker idle (check-then-act),
# both send init_generator to it, the second init replaces the generator of the
# first and next_batch_from_generator (which carries no generator identity)
# then hands the batches and the aggregation state of one run to the other.
# Both runs finish without an error, with missing / foreign batches and wrong
# aggregates. Expected: like as_completed()/run(), iterate() owns
# (acquire_by) the workers it schedules shards on, so a second pool waits.
import collections
import os
import queue
import sys
import threading
import time

ROOT = os.path.dirname(os.path.abspath(__file__))
sys.path.insert(0, os.path.join(ROOT, 'hunt_stub'))
sys.path.insert(0, ROOT)
from absl import logging  # pylint: disable=g-import-not-at-top

logging.set_verbosity(logging.FATAL)
import numpy as np
from ml_metrics._src.aggregates import rolling_stats
from ml_metrics._src.chainables import courier_server
from ml_metrics._src.chainables import courier_worker
from ml_metrics._src.chainables import orchestrate
from ml_metrics._src.chainables import transform

TOTAL, BATCH, SHARDS = 400, 8, 4


def batches(offset, shard_index=0, num_shards=1):
  for i, start in enumerate(range(0, TOTAL, BATCH)):
    if i % num_shards == shard_index:
      time.sleep(0.002)
      yield np.arange(start, min(start + BATCH, TOTAL)) + offset


def pipeline(offset, shard_index=0, num_shards=1):
  return (
      transform.TreeTransform.new(name='datasource')
      .data_source(batches(offset, shard_index, num_shards))
      .chain(
          transform.TreeTransform.new(name='apply')
          .apply(fn=lambda x: x)
          .aggregate(
              output_keys='stats',
              fn=rolling_stats.MeanAndVariance().as_agg_fn(),
          )
      )
  )


def in_process(offset):
  it = pipeline(offset).make().iterate()
  out = collections.Counter(tuple(b.tolist()) for b in it)
  return out, float(it.agg_result['stats'].mean)


names = ['hunt4_w0', 'hunt4_w1']
servers = [courier_server.PrefetchedCourierServer(n) for n in names]
for s in servers:
  s.start()

defect = False
for round_ in range(6):
  if defect:
    break
  # Two pools over the same two workers (default max_parallelism=1).
  pools = {
      'A': courier_worker.WorkerPool(names),
      'B': courier_worker.WorkerPool(names),
  }
  for w in pools['A'].all_workers:
    w.wait_until_alive(deadline_secs=10)
  offsets = {'A': 0, 'B': 1_000_000}
  observed = {}

  def run(tag):
    result_queue = queue.SimpleQueue()
    out = collections.Counter()
    try:
      for b in orchestrate.sharded_pipelines_as_iterator(
          pools[tag],
          pipeline,
          offsets[tag],
          result_queue=result_queue,
          num_shards=SHARDS,
      ):
        out[tuple(b.tolist())] += 1
      agg = result_queue.get(timeout=10).agg_result['stats']
      observed[tag] = (out, float(agg.mean), int(agg.count))
    except BaseException as e:  # pylint: disable=broad-exception-caught
      observed[tag] = e

  threads = [threading.Thread(target=run, args=(t,), daemon=True) for t in 'AB']
  threads[0].start()
  time.sleep(0.1)  # run B starts while run A is already iterating.
  threads[1].start()
  for t in threads:
    t.join(120)
  for tag in 'AB':
    expected_out, expected_mean = in_process(offsets[tag])
    got = observed.get(tag, 'still running')
    if not isinstance(got, tuple):
      print(f'round {round_} run {tag}: raised / hung: {got!r}')
      continue
    out, mean, count = got
    missing = sum((expected_out - out).values())
    foreign = sum(n for b, n in out.items() if b not in expected_out)
    ok = not missing and not foreign and abs(mean - expected_mean) < 1e-6
    print(
        f'round {round_} run {tag}: no error raised; batches missing={missing}'
        f' foreign={foreign}; aggregate count={count} mean={mean:.2f}'
        f' (in-process mean={expected_mean:.2f}) -> {"ok" if ok else "WRONG"}'
    )
    defect = defect or not ok

if defect:
  print(
      'DEFECT: concurrent sharded runs over shared workers exchanged batches'
      ' and aggregation states without any error.'
  )
  os._exit(1)
print('OK: both runs equal their in-process results.')
os._exit(0)
