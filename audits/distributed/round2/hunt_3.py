# Property C20: "At any time at most one pool owns a given worker, a pool can
# only release workers it owns or that are free".
#
# WorkerPool.run() is the blocking one-task API, so tasks are run in parallel by
# calling it from several threads. Its 'finally' calls the UNCONDITIONAL
# worker.release() (the ownership-checked worker.release(self) introduced for
# release_all() is not used here, nor in orchestrate's interleaved stage):
#
#   1. thread T1: pool.run(task A) acquires worker W for `pool`.
#   2. thread T2: pool.run(task B): next_idle_worker() hands out W as soon as A
#      is done, because W is still locked by the same pool.
#   3. T1's finally releases W although T2's task B now runs on it: W is
#      unowned while busy, another pool acquires it.
#   4. T2's finally calls W.release() without ownership check: it frees the
#      lock that now belongs to the OTHER pool; a third pool acquires W too.
#
# Expected: run() only releases what it owns (worker.release(self)) and a worker
# running a task of the pool is not released by a sibling run().
import os
import sys
import threading
import time

ROOT = os.path.dirname(os.path.abspath(__file__))
sys.path.insert(0, os.path.join(ROOT, 'hunt_stub'))
sys.path.insert(0, ROOT)
from absl import logging  # pylint: disable=g-import-not-at-top

logging.set_verbosity(logging.FATAL)
from ml_metrics._src.chainables import courier_server
from ml_metrics._src.chainables import courier_worker
from ml_metrics._src.chainables import lazy_fns

server = courier_server.CourierServer('hunt3_worker')
server.start()
pool = courier_worker.WorkerPool([server.address])
other = courier_worker.WorkerPool([server.address])
third = courier_worker.WorkerPool([server.address])
worker = pool.all_workers[0]
assert worker is other.all_workers[0] is third.all_workers[0]
worker.wait_until_alive(deadline_secs=10)


def sleep_and_return(secs, value):
  time.sleep(secs)
  return value


def _slow_load(value):
  time.sleep(0.5)  # e.g. a large result that takes time to deserialize.
  return value


class SlowToLoad:

  def __reduce__(self):
    return (_slow_load, ('A',))


def task_a():
  time.sleep(0.2)
  return SlowToLoad()


results = {}
# T1: the call of task A is done after 0.2s, run() then deserializes the result
# (0.5s) before its 'finally' releases the worker.
t1 = threading.Thread(
    target=lambda: results.update(a=pool.run(lazy_fns.trace(task_a)()))
)
# T2: starts at 0.1s, gets the worker as soon as the call of A is done (0.2s).
t2 = threading.Thread(
    target=lambda: results.update(
        b=pool.run(lazy_fns.trace(sleep_and_return)(1.5, 'B'))
    )
)
t1.start()
time.sleep(0.1)
t2.start()
t1.join()
time.sleep(0.2)  # task B is still running on the worker (until about t=1.7s).
busy = len(worker.pendings)
print('task B of `pool` is running on the worker:', busy == 1)
print('worker still owned by `pool` while its task B runs:',
      worker.is_locked(pool))
stolen = other._acquire_all() == [worker]
print('another pool acquired the busy worker:', stolen)
t2.join()
print('results of pool.run():', results)
still_owned = worker.is_locked(other)
print('other pool (never released) still owns the worker after run() B'
      ' returned:', still_owned)
third_got_it = third._acquire_all() == [worker]
print('a third pool acquired the worker the other pool believes to own:',
      third_got_it)
if stolen and not still_owned:
  print(
      'DEFECT: WorkerPool.run() released a worker that was running a task of'
      ' its own pool, and then released the lock owned by another pool.'
  )
  os._exit(1)
print('OK')
os._exit(0)
