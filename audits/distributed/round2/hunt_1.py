# Property C20 (ownership bookkeeping, "for all concurrent sequences of
# acquire/release calls from several pools and threads"; "a pool can release the
# workers it owns").
#
# Worker.acquire_by(pool, blocking=True) (also reachable through
# WorkerPool._acquire_all(blocking=True)) waits for the ownership lock of the
# worker WHILE HOLDING the worker's `_states_lock`. Worker.release() - and
# every other operation of the owning pool on that worker: call(), submit(),
# is_alive, pendings, has_capacity - needs `_states_lock` first. As soon as a
# second pool blocks in acquire_by(blocking=True), the owner can neither finish
# its work on the worker nor release it: both pools are dead-locked for ever.
# Expected: the blocking acquire returns True right after the owner released.
import os
import sys
import threading
import time

ROOT = os.path.dirname(os.path.abspath(__file__))
sys.path.insert(0, os.path.join(ROOT, 'hunt_stub'))
sys.path.insert(0, ROOT)
from absl import logging  # pylint: disable=g-import-not-at-top

logging.set_verbosity(logging.FATAL)
from ml_metrics._src.chainables import courier_server
from ml_metrics._src.chainables import courier_worker
from ml_metrics._src.chainables import lazy_fns

server = courier_server.CourierServer('hunt1_worker')
server.start()
owner = courier_worker.WorkerPool([server.address])
other = courier_worker.WorkerPool([server.address])
worker = owner.all_workers[0]
assert worker is other.all_workers[0]
worker.wait_until_alive(deadline_secs=10)

assert owner._acquire_all() == [worker]
print('owner pool acquired the worker:', worker.is_locked(owner))

acquired = []
waiter = threading.Thread(
    target=lambda: acquired.append(worker.acquire_by(other, blocking=True)),
    daemon=True,
)
waiter.start()
time.sleep(0.3)  # the second pool is now waiting for the worker.

events = []


def owner_finishes():
  # The owner uses the worker it owns and then releases it.
  events.append(('has_capacity', worker.has_capacity))
  events.append(('result', owner.run(lazy_fns.trace(len)([1, 2, 3]))))
  owner.release_all()
  events.append(('released', True))


finisher = threading.Thread(target=owner_finishes, daemon=True)
finisher.start()
finisher.join(5)
waiter.join(2)
print('owner progress after 5s:', events)
print('owner thread still blocked:', finisher.is_alive())
print('blocking acquirer still blocked:', waiter.is_alive(), acquired)
if finisher.is_alive() or waiter.is_alive():
  print(
      'DEFECT: dead-lock, acquire_by(blocking=True) holds _states_lock while'
      ' waiting for the ownership lock; the owner cannot use or release the'
      ' worker.'
  )
  os._exit(1)
print('OK: the owner released and the blocking acquirer got the worker.')
os._exit(0)
