# Property C06: "... every shard's aggregation state is merged exactly once so
# the final aggregate equals the fault-free in-process result ... Non-retriable
# task errors surface to the caller as errors, never as silently missing
# results" (quantifier includes "application error" on some remote call).
#
# sharded_pipelines_as_iterator() on workers started as
# PrefetchedCourierServer(ignore_error=True): one batch of shard 0 makes the
# user fn raise ValueError. The run finishes *successfully*, but every batch of
# that shard after the failing one is silently dropped - from the outputs and
# from the aggregate (count 36 instead of 57 when only the bad batch is skipped
# as `iterate(ignore_error=True)` does in process; with ignore_error=False the
# run raises RuntimeError as it should).
#
# Cause: IteratorQueue.enqueue_from_iterator (iter_utils.py) with ignore_error
# swallows the exception and calls next() on the same iterator again "assuming
# the iterator can skip error". The pipeline iterator cannot: its generator chain
# is finished after raising, so the next call makes _ChainedRunnerIterator
# (transform.py) raise StopIteration(AggregateResult(<state so far>)). The
# prefetch server reports this as the regular end marker, the orchestrator
# merges the truncated shard state and nothing tells the caller.
import logging
import os
import queue
import sys
import threading

logging.disable(logging.CRITICAL)
threading.excepthook = lambda args: None
sys.path.insert(0, '/tmp/hunt-distributed/hunt_stub')
import courier  # pylint: disable=g-import-not-at-top,unused-import

from ml_metrics._src.aggregates import rolling_stats
from ml_metrics._src.chainables import courier_server
from ml_metrics._src.chainables import courier_worker
from ml_metrics._src.chainables import io
from ml_metrics._src.chainables import orchestrate
from ml_metrics._src.chainables import transform
import numpy as np

N, BATCH = 60, 3  # 20 batches; the 3rd one (in shard 0 of 2) is bad.


def double(x):
  if x[0] == 6.0:
    raise ValueError('bad batch')
  return x * 2


def define_pipeline(shard_index=0, num_shards=1):
  data = [np.arange(i, i + BATCH, dtype=float) for i in range(0, N, BATCH)]
  source = io.SequenceDataSource(data).shard(shard_index, num_shards)
  return (
      transform.TreeTransform.new(name='datasource')
      .data_source(source)
      .chain(
          transform.TreeTransform.new(name='apply')
          .apply(fn=double)
          .aggregate(
              output_keys='stats',
              fn=rolling_stats.MeanAndVariance().as_agg_fn(),
          )
      )
  )


def run_distributed(ignore_error: bool):
  servers = [
      courier_server.PrefetchedCourierServer(
          f'hunt8_{ignore_error}_{i}', ignore_error=ignore_error
      )
      for i in range(2)
  ]
  for s in servers:
    s.start()
  pool = courier_worker.WorkerPool(
      [s.address for s in servers], iterate_batch_size=2
  )
  results = queue.SimpleQueue()
  try:
    batches = list(
        orchestrate.sharded_pipelines_as_iterator(
            pool, define_pipeline, num_shards=2, result_queue=results
        )
    )
    return len(batches), int(results.get(timeout=10).agg_result['stats'].count)
  except Exception as e:  # pylint: disable=broad-exception-caught
    return e


def main() -> int:
  it = define_pipeline().make().iterate(ignore_error=True)
  skipped_only = (len(list(it)), int(it.agg_result['stats'].count))
  print('in process, iterate(ignore_error=True) (batches, count):', skipped_only)
  try:
    list(define_pipeline().make().iterate())
  except Exception as e:  # pylint: disable=broad-exception-caught
    print('in process, default                  :', f'raises {type(e).__name__}')
  strict = run_distributed(ignore_error=False)
  print('distributed, servers ignore_error=False:', repr(strict))
  lenient = run_distributed(ignore_error=True)
  print('distributed, servers ignore_error=True (batches, count):', lenient)
  if not isinstance(lenient, Exception) and lenient != skipped_only:
    print(
        'DEFECT: the run succeeded but silently lost'
        f' {skipped_only[0] - lenient[0]} good batches'
        f' ({skipped_only[1] - lenient[1]} examples) of the shard that hit the'
        ' application error.'
    )
    return 1
  print('no defect observed')
  return 0


if __name__ == '__main__':
  rc = main()
  sys.stdout.flush()
  os._exit(rc)
