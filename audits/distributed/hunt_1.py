# Property C20 (worker ownership bookkeeping): "... when a pool-level operation
# returns or raises, none of its workers remains acquired."
#
# WorkerPool.run() looks for a worker with next_idle_worker(maybe_acquire=True).
# That helper *acquires* every not-yet-acquired worker it inspects and only then
# checks has_capacity / is_alive (courier_worker.py, next_idle_worker:
# `if worker.acquire_by(self) and worker.has_capacity and worker.is_alive`).
# Workers that were acquired but rejected (dead, or busy) stay locked by the
# pool. run() releases only the one worker it finally used (`worker.release()`
# in its finally block), so after run() has *returned* the pool still owns the
# dead/busy workers it walked over. Consequences shown below:
#   1. pool.acquired_workers is not empty after run() returned,
#   2. when the dead worker comes back, another pool sharing the same Worker
#      objects can never acquire it: as_completed() on that pool spins forever
#      and never delivers the task result.
import logging
import sys
import threading
import time

logging.disable(logging.CRITICAL)
sys.path.insert(0, '/tmp/hunt-distributed/hunt_stub')
import courier  # pylint: disable=g-import-not-at-top,unused-import

from ml_metrics._src.chainables import courier_server
from ml_metrics._src.chainables import courier_worker
from ml_metrics._src.chainables import lazy_fns
from ml_metrics._src.chainables import orchestrate


def main() -> int:
  ok_server = courier_server.CourierServer('hunt1_ok')
  ok_server.start()
  # 'hunt1_late' is not up yet (e.g. the worker died / has not joined yet).
  pool_a = courier_worker.WorkerPool(['hunt1_late', 'hunt1_ok'], call_timeout=2)
  pool_a.wait_until_alive()
  print('alive workers of pool A  :', [w.address for w in pool_a.workers])

  result = pool_a.run(lazy_fns.trace(len)([1, 2, 3]))
  print('pool_a.run(len([1,2,3]))  :', result)
  leaked = [w.address for w in pool_a.acquired_workers]
  print('acquired by A after run() :', leaked, '(expected [])')

  # The late worker (re)joins. Pool B shares the very same Worker singletons.
  late_server = courier_server.CourierServer('hunt1_late')
  late_server.start()
  pool_b = courier_worker.WorkerPool([pool_a.all_workers[0]])
  assert pool_b.all_workers[0] is pool_a.all_workers[0]
  pool_b.wait_until_alive(deadline_secs=30)
  print('alive workers of pool B  :', [w.address for w in pool_b.workers])

  got = []

  def consume():
    tasks = [lazy_fns.trace(len)([1, 2])]
    got.extend(orchestrate.as_completed(pool_b, tasks))

  t = threading.Thread(target=consume, daemon=True)
  t.start()
  t.join(5)
  print('pool B as_completed result after 5s:', got, '(expected [2])')
  print('pool B still spinning     :', t.is_alive())
  owner = pool_a.all_workers[0].worker_pool
  print('owner of the rejoined worker is pool A:', owner is pool_a)

  if leaked or t.is_alive() or got != [2]:
    print('DEFECT: WorkerPool.run() returned but left workers acquired.')
    return 1
  print('no defect observed')
  return 0


if __name__ == '__main__':
  rc = main()
  sys.stdout.flush()
  import os

  os._exit(rc)
