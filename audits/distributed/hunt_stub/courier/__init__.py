"""Minimal in-process stand-in for DeepMind's `courier` RPC package.

Only what ml_metrics uses: courier.Server(name, port=...).{Bind,Unbind,Start,
Stop,has_started,address} and courier.Client(address, call_timeout=...).futures.

Semantics mimicked from gRPC:
  * a call to an address without a started server waits (wait_for_ready) until
    the deadline, then fails with a status error whose `.code` is 4
    (DEADLINE_EXCEEDED); without deadline it waits forever.
  * when the client deadline expires the future fails with code 4 but the server
    handler keeps running.
  * a handler exception is delivered as a status error (code 2) carrying the
    repr of the original exception in `.message`.
  * arguments / results cross the "wire" through pickle (copies, not aliases).

Fault injection (used by the hunt scripts only): `set_fault_hook(fn)` where
fn(address, method, index) -> one of None/'ok', 'deadline', 'die', 'die_after';
`set_delay_hook(fn)` where fn(address, method, args, kwargs) -> seconds by which
the delivery of that request to the server is delayed.
"""

from __future__ import annotations

import collections
from concurrent import futures
import itertools
import pickle
import threading
import time

_LOCK = threading.RLock()
_SERVERS: dict[str, 'Server'] = {}
_PORTS = itertools.count(20000)
_FAULT_HOOK = None
_DELAY_HOOK = None
_CALL_COUNTS = collections.Counter()
CALL_LOG = []  # (time, address, method)


class StatusError(Exception):
  """Stands for pybind11_abseil.status.StatusNotOk."""

  def __init__(self, code: int, message: str):
    super().__init__(message)
    self.code = code
    self.message = message


def set_fault_hook(fn):
  global _FAULT_HOOK
  _FAULT_HOOK = fn
  _CALL_COUNTS.clear()


def set_delay_hook(fn):
  """fn(address, method, args, kwargs) -> seconds the request is in transit."""
  global _DELAY_HOOK
  _DELAY_HOOK = fn


def _wire(obj):
  try:
    return pickle.loads(pickle.dumps(obj))
  except Exception:  # pylint: disable=broad-exception-caught
    try:
      import cloudpickle  # pylint: disable=g-import-not-at-top

      return cloudpickle.loads(cloudpickle.dumps(obj))
    except Exception:  # pylint: disable=broad-exception-caught
      return obj


class Server:
  """In-process server."""

  def __init__(self, name: str | None = None, port: int | None = None, **_):
    self._name = name
    self._port = port or next(_PORTS)
    self._handlers = {}
    self._started = False
    self._inflight: set[futures.Future] = set()

  @property
  def address(self) -> str:
    return f'localhost:{self._port}'

  @property
  def has_started(self) -> bool:
    return self._started

  def Bind(self, name, fn):  # pylint: disable=invalid-name
    self._handlers[name] = fn

  def Unbind(self, name):  # pylint: disable=invalid-name
    self._handlers.pop(name, None)

  def _keys(self):
    keys = [self.address]
    if self._name:
      keys.append(self._name)
    return keys

  def Start(self):  # pylint: disable=invalid-name
    with _LOCK:
      self._started = True
      for k in self._keys():
        _SERVERS[k] = self

  def Stop(self):  # pylint: disable=invalid-name
    self.kill()

  def Join(self):  # pylint: disable=invalid-name
    pass

  def kill(self, unavailable: bool = False):
    """The process dies.

    In-flight calls get no response (the client only sees its own deadline),
    or fail at once as UNAVAILABLE(14) when `unavailable` is set.
    """
    with _LOCK:
      self._started = False
      for k in self._keys():
        if _SERVERS.get(k) is self:
          del _SERVERS[k]
      inflight, self._inflight = self._inflight, set()
    if unavailable:
      for f in inflight:
        _fail(f, StatusError(14, 'Socket closed'))


def _fail(f: futures.Future, exc: Exception):
  try:
    f.set_exception(exc)
  except futures.InvalidStateError:
    pass


def _succeed(f: futures.Future, value):
  try:
    f.set_result(value)
  except futures.InvalidStateError:
    pass


def _lookup(address: str) -> Server | None:
  with _LOCK:
    s = _SERVERS.get(address)
    return s if s is not None and s.has_started else None


class _Futures:

  def __init__(self, client: 'Client'):
    self._client = client

  def __getattr__(self, method: str):
    if method.startswith('__'):
      raise AttributeError(method)

    def call(*args, **kwargs):
      return self._client._call(method, args, kwargs)  # pylint: disable=protected-access

    return call


class Client:
  """In-process client."""

  def __init__(self, address: str, call_timeout=None, **_):
    self.address = address
    self.call_timeout = call_timeout
    self.futures = _Futures(self)

  def __getattr__(self, method: str):
    if method.startswith('_'):
      raise AttributeError(method)

    def call(*args, **kwargs):
      return self._call(method, args, kwargs).result()

    return call

  def _call(self, method, args, kwargs) -> futures.Future:
    fut = futures.Future()
    timeout = self.call_timeout or None
    deadline = None if timeout is None else time.time() + float(timeout)
    args, kwargs = _wire(args), _wire(kwargs)
    with _LOCK:
      idx = _CALL_COUNTS[(self.address, method)]
      _CALL_COUNTS[(self.address, method)] += 1
      CALL_LOG.append((time.time(), self.address, method))
    hook = _FAULT_HOOK
    actions = [hook(self.address, method, idx) if hook else None]

    def expire():
      _fail(fut, StatusError(4, f'Deadline Exceeded calling {method}'))

    delay_hook = _DELAY_HOOK
    delay = delay_hook(self.address, method, args, kwargs) if delay_hook else 0

    def run():
      if delay:
        time.sleep(delay)  # the request is late (network / server queueing).
      # wait_for_ready.
      while (server := _lookup(self.address)) is None:
        if fut.done():
          return
        if deadline is not None and time.time() >= deadline:
          return expire()
        time.sleep(0.002)
      action = actions[0]
      if action == 'die':
        server.kill()
        actions[0] = None
        # The call never reaches a server; retry resolving until the deadline.
        return run()
      handler = server._handlers.get(method)  # pylint: disable=protected-access
      if handler is None:
        return _fail(fut, StatusError(5, f'method {method} not found'))
      if action != 'deadline':
        with _LOCK:
          server._inflight.add(fut)  # pylint: disable=protected-access
      timer = None
      if action == 'deadline':
        # The response is lost/late: the client observes DEADLINE_EXCEEDED
        # while the handler runs to completion on the server.
        expire()
      elif deadline is not None:
        timer = threading.Timer(max(deadline - time.time(), 0), expire)
        timer.daemon = True
        timer.start()
      try:
        result = handler(*args, **kwargs)
        if action == 'die_after':
          server.kill()
        else:
          _succeed(fut, _wire(result))
      except BaseException as e:  # pylint: disable=broad-exception-caught
        _fail(fut, StatusError(2, f'{type(e).__name__}: {e!r}'))
      finally:
        if timer is not None and action != 'die_after':
          timer.cancel()
        with _LOCK:
          server._inflight.discard(fut)  # pylint: disable=protected-access

    threading.Thread(target=run, daemon=True).start()
    return fut
