# Property C16, last sentence: "If fewer shard states arrive than expected the
# merge reports an error instead of returning a partial aggregate."
#
# orchestrate.sharded_pipelines_as_iterator merges whatever states have arrived
# when WorkerPool.iterate() puts its stop marker, and iterate() puts that marker
# in its `finally`, i.e. also when it gives up (a shard failed with a
# non-retriable error, or the retry budget is exhausted).  merge_states() is
# never told how many states to expect (its `strict_states_cnt` argument exists
# for exactly this, "Workers might have partially crashed", but orchestrate
# does not pass it).  So when one of 4 shards fails, the iterator raises
# RuntimeError('Failed at ...') AND `result_queue` receives a well-formed
# AggregateResult computed from the 3 shards that finished: whoever waits on
# result_queue (the documented way to obtain the aggregate, typically another
# thread) gets a partial aggregate that cannot be told from a complete one.
#
# exit 1: defect present (a partial aggregate is delivered on result_queue)
# exit 0: no aggregate is delivered (or only a complete one).

import os
import sys

sys.path.insert(
    0, os.path.join(os.path.dirname(os.path.abspath(__file__)), 'hunt_stub')
)
import harness  # pylint: disable=unused-import,g-import-not-at-top
import queue
import threading

import numpy as np
from ml_metrics._src.aggregates import rolling_stats
from ml_metrics._src.chainables import courier_server
from ml_metrics._src.chainables import courier_worker
from ml_metrics._src.chainables import io
from ml_metrics._src.chainables import orchestrate
from ml_metrics._src.chainables import transform

T = transform.TreeTransform
N_BATCHES, NUM_SHARDS = 16, 4


def _check(x, bad_value):
  if x[0] == bad_value:
    raise ValueError(f'bad record {bad_value}')
  return x


def define_pipeline(bad_value, shard_index=0, num_shards=1):
  data = [np.arange(k * 5, k * 5 + 5) for k in range(N_BATCHES)]
  ds = io.SequenceDataSource(data).shard(shard_index, num_shards)
  return (
      T.new(name='ds')
      .data_source(ds)
      .chain(
          T.new(name='agg')
          .apply(fn=lambda x: _check(x, bad_value))
          .aggregate(
              output_keys='stats',
              fn=rolling_stats.MeanAndVariance().as_agg_fn(),
          )
      )
  )


def main():
  it = define_pipeline(-1).make().iterate()
  for _ in it:
    pass
  expected = it.agg_result['stats']

  host = courier_server.CourierServer('host')
  host.start()
  servers = [
      courier_server.PrefetchedCourierServer(f'worker_{i}', clients=['host'])
      for i in range(2)
  ]
  for s in servers:
    s.start()
  pool = courier_worker.WorkerPool([s.address for s in servers])
  pool.wait_until_alive(deadline_secs=30)

  result_queue = queue.SimpleQueue()
  outcome = []

  def run():
    try:
      n = 0
      # The last record of the last shard is bad: an application error.
      for _ in orchestrate.sharded_pipelines_as_iterator(
          pool,
          define_pipeline,
          (N_BATCHES - 1) * 5,
          num_shards=NUM_SHARDS,
          result_queue=result_queue,
      ):
        n += 1
      outcome.append(f'finished normally with {n} batches')
    except Exception as e:  # pylint: disable=broad-exception-caught
      outcome.append(f'raised {type(e).__name__}: {e}')

  t = threading.Thread(target=run, daemon=True)
  t.start()
  t.join(120)
  if t.is_alive():
    print('the run hangs')
    return 1
  print('the iterator', outcome[0])
  print('workers still acquired / without capacity:',
        [w.address for w in pool.all_workers
         if w.is_locked() or not w.has_capacity])
  try:
    result = result_queue.get(timeout=5)
  except queue.Empty:
    print('result_queue is empty: no (partial) aggregate was delivered. OK')
    return 0
  stats = result.agg_result['stats']
  print(f'result_queue delivered an aggregate: count={stats.count}'
        f' mean={stats.mean:.2f}')
  print(f'aggregate of the complete data     : count={expected.count}'
        f' mean={expected.mean:.2f}')
  if stats.count != expected.count:
    print('DEFECT: a partial aggregate (only the shards that finished) was'
          ' delivered instead of an error.')
    return 1
  return 0


if __name__ == '__main__':
  sys.exit(main())
