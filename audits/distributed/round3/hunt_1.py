# Property C06 (exactly-once merge of every shard's aggregation state).
#
# WorkerPool.iterate() decides on the MAIN thread that a shard has to be retried
# ("elif task.is_alive ... else: timeout_tasks.append(task)") while the
# coroutine of that shard (CourierClient.async_iterate, on the event-loop
# thread) may already hold the worker's last reply and is about to deliver (or
# has just delivered) the shard's aggregation state into
# generator_result_queue.  `state.cancel()` only marks the concurrent future as
# cancelled; it cannot take the state back and it does not stop a coroutine
# that is in the synchronous part that handles the last reply.  So a worker that
# dies (here: a graceful shutdown that pushes heartbeat(alive=False), what a
# preempted worker does) right after it has served its last batch gets its
# shard re-run on another worker AND its own state is merged too: the final
# aggregate counts that shard twice, no error is reported.
#
# Nothing of the library is patched. The window is made wide with outputs that
# are slow to un-pickle on the driver (0.05s per element, as a large batch is);
# the fault is one worker death right after one reply.
#
# exit 1: defect present (aggregate differs from the in-process result)
# exit 0: aggregate is correct.

import os
import sys

sys.path.insert(
    0, os.path.join(os.path.dirname(os.path.abspath(__file__)), 'hunt_stub')
)
import harness  # pylint: disable=unused-import,g-import-not-at-top
import collections
import queue
import threading
import time

import courier
import numpy as np
from ml_metrics._src.aggregates import rolling_stats
from ml_metrics._src.chainables import courier_server
from ml_metrics._src.chainables import courier_worker
from ml_metrics._src.chainables import io
from ml_metrics._src.chainables import orchestrate
from ml_metrics._src.chainables import transform

N_BATCHES = 12  # 6 per shard, 5 numbers each.
T = transform.TreeTransform


def _slow_load(v):
  time.sleep(0.05)
  return v


class SlowToLoad:
  """A batch output that takes 50ms to un-pickle (like a big one does)."""

  def __init__(self, v):
    self.v = v

  def __reduce__(self):
    return (_slow_load, (self.v,))


def define_pipeline(shard_index=0, num_shards=1):
  data = [np.arange(k * 5, k * 5 + 5) for k in range(N_BATCHES)]
  ds = io.SequenceDataSource(data).shard(shard_index, num_shards)
  return (
      T.new(name='ds')
      .data_source(ds)
      .chain(
          T.new(name='agg').aggregate(
              output_keys='stats',
              fn=rolling_stats.MeanAndVariance().as_agg_fn(),
          )
      )
      .chain(T.new(name='wrap').apply(fn=lambda x: SlowToLoad(tuple(x))))
  )


def main():
  # In-process reference.
  it = define_pipeline().make().iterate()
  expected_batches = collections.Counter(x.v for x in it)
  expected = it.agg_result['stats']

  host = courier_server.CourierServer('host')
  host.start()
  servers = {
      f'worker_{i}': courier_server.PrefetchedCourierServer(
          f'worker_{i}', clients=['host'], prefetch_size=64
      )
      for i in range(2)
  }
  for s in servers.values():
    s.start()
  pool = courier_worker.WorkerPool(list(servers), iterate_batch_size=64)
  pool.wait_until_alive(deadline_secs=30)

  died = []

  def die_after_last_reply(address, method, result):
    del result
    # One reply carries the whole shard (6 batches < 64) and the end marker.
    if method == 'next_batch_from_generator' and not died:
      died.append(address)
      # The worker is shut down gracefully: it tells the driver it is dead.
      servers[address].stop()

  courier.set_post_hook(die_after_last_reply)

  result_queue = queue.SimpleQueue()
  out, errors = [], []

  def run():
    try:
      for batch in orchestrate.sharded_pipelines_as_iterator(
          pool, define_pipeline, num_shards=2, result_queue=result_queue
      ):
        out.append(batch)
    except BaseException as e:  # pylint: disable=broad-exception-caught
      errors.append(e)

  t = threading.Thread(target=run, daemon=True)
  t.start()
  t.join(120)
  courier.set_post_hook(None)
  if t.is_alive():
    print('the run hangs')
    return 1
  print('worker that died right after its last reply:', died)
  print('error raised by the run:', errors)
  got_batches = collections.Counter(out)
  missing = expected_batches - got_batches
  print('missing output batches:', sum(missing.values()))
  result = result_queue.get(timeout=30).agg_result['stats']
  print(
      f'in-process aggregate : count={expected.count} mean={expected.mean:.3f}'
  )
  print(f'distributed aggregate: count={result.count} mean={result.mean:.3f}')
  if errors:
    print('an error was reported (acceptable)')
    return 0
  if result.count != expected.count:
    print(
        'DEFECT: the state of the shard of the dead worker was merged twice,'
        ' silently.'
    )
    return 1
  print('OK')
  return 0


if __name__ == '__main__':
  sys.exit(main())
