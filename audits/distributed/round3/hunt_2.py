# Properties C20 (at most one pool owns a given worker) and C16 (a fault-free
# distributed run equals the in-process run).
#
# The ownership lock, the capacity bookkeeping (`_pendings`) and the new
# `CourierClient.reserve()` all live on the Worker OBJECT, and Worker objects
# are singletons per (address, call_timeout, max_parallelism,
# heartbeat_threshold_secs, iterate_batch_size) - see CourierClient.__eq__ and
# WorkerPool.__init__, which re-creates every worker with the pool's settings.
# Two pools over the same server that differ in any setting (here: only
# call_timeout) therefore get two Worker objects for ONE server:
#   * both pools acquire that worker at the same time (acquired_workers of both
#     pools list it), and
#   * the repair "WorkerPool.iterate reserves the capacity of a worker before
#     using it" does not hold between them: both sharded runs initialise their
#     generator on the same server, the second init replaces the first
#     generator, and the first run goes on reading the generator of the second
#     run: it returns foreign batches and a foreign aggregate, without an error.
# With equal settings (same script, `--same`) the second run waits for the
# first one and both results are right.
#
# No fault is injected and nothing of the library is patched; the batch outputs
# of run A are slow to un-pickle on the driver (0.3s per reply) only to make
# the moment at which run B starts deterministic.
#
# exit 1: defect present, exit 0: both runs equal their in-process results.

import os
import sys

sys.path.insert(
    0, os.path.join(os.path.dirname(os.path.abspath(__file__)), 'hunt_stub')
)
import harness  # pylint: disable=unused-import,g-import-not-at-top
import queue
import threading
import time

import courier
import numpy as np
from ml_metrics._src.aggregates import rolling_stats
from ml_metrics._src.chainables import courier_server
from ml_metrics._src.chainables import courier_worker
from ml_metrics._src.chainables import io
from ml_metrics._src.chainables import orchestrate
from ml_metrics._src.chainables import transform

T = transform.TreeTransform
N_BATCHES = 8


def _slow_load(v, delay):
  time.sleep(delay)
  return v


class Out:
  """A batch output, optionally slow to un-pickle (as a big batch is)."""

  def __init__(self, v, delay):
    self.v, self.delay = v, delay

  def __reduce__(self):
    return (_slow_load, (self.v, self.delay))


def define_pipeline(offset, delay, shard_index=0, num_shards=1):
  data = [np.arange(k * 5, k * 5 + 5) + offset for k in range(N_BATCHES)]
  ds = io.SequenceDataSource(data).shard(shard_index, num_shards)
  return (
      T.new(name='ds')
      .data_source(ds)
      .chain(
          T.new(name='agg').aggregate(
              output_keys='stats',
              fn=rolling_stats.MeanAndVariance().as_agg_fn(),
          )
      )
      .chain(T.new(name='wrap').apply(fn=lambda x: Out(tuple(x), delay)))
  )


def in_process(offset):
  it = define_pipeline(offset, 0).make().iterate()
  batches = sorted(x.v for x in it)
  return batches, it.agg_result['stats']


def main():
  same_settings = '--same' in sys.argv
  host = courier_server.CourierServer('host')
  host.start()
  server = courier_server.PrefetchedCourierServer(
      'the_worker', clients=['host'], prefetch_size=2
  )
  server.start()
  pool_a = courier_worker.WorkerPool(['the_worker'], iterate_batch_size=2)
  pool_b = courier_worker.WorkerPool(
      ['the_worker'],
      iterate_batch_size=2,
      call_timeout=0 if same_settings else 600,
  )
  pool_a.wait_until_alive(deadline_secs=30)
  pool_b.wait_until_alive(deadline_secs=30)

  # Part 1 (C20): ownership.
  worker_a = pool_a.next_idle_worker(maybe_acquire=True)
  worker_b = pool_b.next_idle_worker(maybe_acquire=True)
  owners = [
      name
      for name, pool in (('pool_a', pool_a), ('pool_b', pool_b))
      if [w.address for w in pool.acquired_workers] == ['the_worker']
  ]
  print('pools that own "the_worker" at the same time:', owners)
  print('same Worker object:', worker_a is not None and worker_a is worker_b)
  both_own = len(owners) == 2
  pool_a.release_all()
  pool_b.release_all()

  # Part 2 (C16): two sharded runs, B starts while A is in the middle.
  first_reply_of_a = threading.Event()

  def post_hook(address, method, result):
    del address, result
    if method == 'next_batch_from_generator':
      first_reply_of_a.set()

  courier.set_post_hook(post_hook)
  results = {}

  def run(name, pool, offset, delay):
    result_queue = queue.SimpleQueue()
    try:
      batches = sorted(
          orchestrate.sharded_pipelines_as_iterator(
              pool,
              define_pipeline,
              offset,
              delay,
              num_shards=1,
              result_queue=result_queue,
          )
      )
      results[name] = (batches, result_queue.get(timeout=60).agg_result['stats'])
    except BaseException as e:  # pylint: disable=broad-exception-caught
      results[name] = e

  thread_a = threading.Thread(
      target=run, args=('A', pool_a, 0, 0.3), daemon=True
  )
  thread_a.start()
  first_reply_of_a.wait(60)
  time.sleep(0.1)  # A is now un-pickling its first reply.
  thread_b = threading.Thread(
      target=run, args=('B', pool_b, 1000, 0.0), daemon=True
  )
  thread_b.start()
  thread_a.join(120)
  thread_b.join(120)
  courier.set_post_hook(None)
  if thread_a.is_alive() or thread_b.is_alive():
    print('a run hangs')
    return 1

  wrong = False
  for name, offset in (('A', 0), ('B', 1000)):
    exp_batches, exp_stats = in_process(offset)
    got = results[name]
    if isinstance(got, BaseException):
      print(f'run {name}: raised {got!r} (an error is acceptable)')
      continue
    batches, stats = got
    foreign = [b for b in batches if b not in exp_batches]
    missing = [b for b in exp_batches if b not in batches]
    print(
        f'run {name}: {len(batches)} batches ({len(missing)} missing,'
        f' {len(foreign)} foreign), aggregate count={stats.count}'
        f' mean={stats.mean:.1f}; in-process: {len(exp_batches)} batches,'
        f' count={exp_stats.count} mean={exp_stats.mean:.1f}'
    )
    if foreign or missing or stats.count != exp_stats.count or abs(
        stats.mean - exp_stats.mean
    ) > 1e-6:
      wrong = True
  if both_own:
    print('DEFECT (C20): two pools own the same worker at the same time.')
  if wrong:
    print('DEFECT (C16): a run silently returned the data of the other run.')
  return 1 if (both_own or wrong) else 0


if __name__ == '__main__':
  sys.exit(main())
