"""Common helpers for the audit scripts (in-process fake courier)."""

import os
import sys

_HERE = os.path.dirname(os.path.abspath(__file__))
sys.path.insert(0, _HERE)
sys.path.insert(1, os.path.dirname(_HERE))

import courier  # pylint: disable=g-import-not-at-top

assert 'hunt_stub' in courier.__file__, courier.__file__

from absl import logging  # pylint: disable=g-import-not-at-top

logging.set_verbosity(logging.ERROR)
import logging as _pylogging  # pylint: disable=g-import-not-at-top

_pylogging.getLogger().setLevel(_pylogging.CRITICAL)
logging.use_absl_handler()
logging.get_absl_handler().setLevel(_pylogging.CRITICAL)

import ml_metrics  # pylint: disable=g-import-not-at-top

assert ml_metrics.__file__.startswith('/tmp/hunt3-distributed/'), (
    ml_metrics.__file__
)

import threading  # pylint: disable=g-import-not-at-top

# Keeps the output of the scripts readable: errors of background (prefetch)
# threads are reported through the protocol anyway.
threading.excepthook = lambda args: None
