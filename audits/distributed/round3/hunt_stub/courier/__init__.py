"""Minimal in-process stand-in for DeepMind's `courier` (client/server RPC).

Semantics that matter for ml_metrics:
  * courier.Server(name, port=).Bind(name, fn) / Start() / Stop() / has_started
    / address.
  * courier.Client(address, call_timeout=).futures.<method>(*a, **kw) returns a
    concurrent.futures.Future; client.<method>(...) blocks.
  * A call whose deadline expires fails on the client with an error whose
    `.code == 4` (DEADLINE_EXCEEDED); the server handler keeps running (as with
    gRPC) and its result is dropped.
  * A call to an address nobody serves waits (wait_for_ready) until a server
    shows up or the deadline expires.
  * A handler exception reaches the client as StatusNotOk (code 2) carrying the
    text of the exception in `.message`.

Fault injection for the audit scripts:
  * `set_hook(fn)`: fn(address, method, args, kwargs) is called in the handler
    thread right before the handler is run; it may sleep, raise, or return
    'drop' to make the reply get lost (client sees the deadline / hangs).
  * `kill(address)`: the server process "dies": running handlers keep running
    but no reply is ever delivered and new calls are not served.
"""

from __future__ import annotations

from concurrent import futures
import itertools
import threading
import time
import traceback

_lock = threading.RLock()
_servers: dict[str, 'Server'] = {}
_ports = itertools.count(20000)
_hook = None
_post_hook = None
_call_log = []


def set_hook(fn):
  global _hook
  _hook = fn


def set_post_hook(fn):
  """fn(address, method, result) runs right after a reply was delivered."""
  global _post_hook
  _post_hook = fn


def call_log():
  return _call_log


class StatusNotOk(Exception):

  def __init__(self, code: int, message: str):
    super().__init__(message)
    self.code = code
    self.message = message


class Server:

  def __init__(self, name: str | None = None, port: int | None = None, **_):
    self._name = name
    self._port = port or next(_ports)
    self._handlers = {}
    self._started = False
    self._dead = False

  @property
  def address(self) -> str:
    return f'localhost:{self._port}'

  @property
  def has_started(self) -> bool:
    return self._started

  def Bind(self, name, fn):  # pylint: disable=invalid-name
    self._handlers[name] = fn

  def Start(self):  # pylint: disable=invalid-name
    with _lock:
      self._started = True
      self._dead = False
      _servers[self.address] = self
      if self._name:
        _servers[self._name] = self

  def Stop(self):  # pylint: disable=invalid-name
    with _lock:
      self._started = False
      for k in [k for k, v in _servers.items() if v is self]:
        del _servers[k]

  def Join(self):  # pylint: disable=invalid-name
    while self._started:
      time.sleep(0.01)


def kill(address: str):
  """The process behind `address` dies: no more replies, no more service."""
  with _lock:
    server = _servers.get(address)
    if server is not None:
      server._dead = True  # pylint: disable=protected-access
      for k in [k for k, v in _servers.items() if v is server]:
        del _servers[k]


def _finish(fut: futures.Future, *, result=None, exc=None):
  try:
    if exc is not None:
      fut.set_exception(exc)
    else:
      fut.set_result(result)
  except futures.InvalidStateError:
    pass


class _Futures:

  def __init__(self, client: 'Client'):
    self._client = client

  def __getattr__(self, method: str):
    client = self._client

    def call(*args, **kwargs) -> futures.Future:
      fut = futures.Future()
      timeout = client.call_timeout
      start = time.time()
      deadline = start + timeout if timeout else None

      def expire():
        if not fut.done():
          _finish(fut, exc=StatusNotOk(4, 'Deadline Exceeded'))

      if deadline is not None:
        timer = threading.Timer(timeout, expire)
        timer.daemon = True
        timer.start()

      def run():
        # wait_for_ready.
        while True:
          with _lock:
            server = _servers.get(client.address)
          if server is not None:
            break
          if fut.done() or (deadline is not None and time.time() > deadline):
            return
          time.sleep(0.002)
        handler = server._handlers.get(method)  # pylint: disable=protected-access
        if handler is None:
          _finish(fut, exc=StatusNotOk(12, f'method {method} not found'))
          return
        _call_log.append((client.address, method))
        action = None
        try:
          if _hook is not None:
            action = _hook(client.address, method, args, kwargs)
          result = handler(*args, **kwargs)
        except BaseException as e:  # pylint: disable=broad-exception-caught
          if server._dead or action == 'drop':  # pylint: disable=protected-access
            return
          msg = (
              'Python exception was raised on the server:\n'
              + ''.join(traceback.format_exception(e))
          )
          _finish(fut, exc=StatusNotOk(2, msg))
          return
        if server._dead or action == 'drop':  # pylint: disable=protected-access
          return
        _finish(fut, result=result)
        if _post_hook is not None:
          _post_hook(client.address, method, result)

      threading.Thread(target=run, daemon=True).start()
      return fut

    return call


class Client:

  def __init__(self, address: str, call_timeout=None, **_):
    self.address = address
    self.call_timeout = call_timeout
    self.futures = _Futures(self)

  def __getattr__(self, method: str):
    if method.startswith('__'):
      raise AttributeError(method)
    fn = getattr(self.futures, method)

    def call(*args, **kwargs):
      return fn(*args, **kwargs).result()

    return call
