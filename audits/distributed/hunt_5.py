# Property C15 (prefetching generator protocol): "a generator failure is
# delivered as that exception ...", "... never leaves a request blocked"; and
# C06: "Non-retriable task errors surface to the caller as errors".
#
# When the object handed to init_generator is an iterable whose __iter__ raises
# (e.g. `lazy_fns.trace(pipeline).make()` - a ChainedRunner - whose data source
# cannot be opened), init_generator reports success, and every following
# next_batch_from_generator request blocks forever: the failure is never
# delivered. Through WorkerPool.iterate() the caller therefore never sees the
# ValueError: without call_timeout the run hangs, with call_timeout the healthy
# worker's calls expire and the task is retried until 'Too many Timeouts'.
#
# Cause: IteratorQueue.enqueue_from_iterator (iter_utils.py) executes
# `iterator = iter(iterator)` *before* `self._start_enqueue()` and outside of its
# try/except. The prefetch thread started by
# PrefetchedCourierServer._init_iterator dies with the exception, the queue never
# records an enqueuer nor an exception, `enqueue_done` stays False and
# _next_batch's `get_batch(batch_size, block=True)` waits (timeout=None) for
# elements that will never come.
import logging
import os
import queue
import sys
import threading

logging.disable(logging.CRITICAL)
threading.excepthook = lambda args: None
sys.path.insert(0, '/tmp/hunt-distributed/hunt_stub')
import courier  # pylint: disable=g-import-not-at-top,unused-import

from ml_metrics._src.chainables import courier_server
from ml_metrics._src.chainables import courier_worker
from ml_metrics._src.chainables import lazy_fns
from ml_metrics._src.chainables import transform
from ml_metrics._src.utils import courier_utils


class UnreadableSource:
  """A data source that fails when it is opened."""

  def __iter__(self):
    raise ValueError('cannot open the data source')


def make_pipeline():
  return (
      transform.TreeTransform.new(name='read')
      .data_source(UnreadableSource())
      .apply(fn=lambda x: x)
  )


def main() -> int:
  # Reference: in process the failure is raised.
  try:
    list(make_pipeline().make())
    in_process = None
  except Exception as e:  # pylint: disable=broad-exception-caught
    in_process = e
  print('in process                         :', repr(in_process))

  server = courier_server.PrefetchedCourierServer('hunt5_worker')
  server.start()
  defect = False

  # 1. Raw protocol.
  client = courier_utils.CourierClient('hunt5_worker', max_parallelism=4)
  client.wait_until_alive()
  init = client.call(
      lazy_fns.trace(make_pipeline)().make(), courier_method='init_generator'
  ).result(timeout=10)
  print('init_generator returned            :', repr(init))
  request = client.next_batch_from_generator(2)
  try:
    batch = lazy_fns.maybe_make(request.result(timeout=5))
    print('next_batch_from_generator returned :', batch)
    defect |= not any(isinstance(x, ValueError) for x in batch)
  except TimeoutError:
    print('next_batch_from_generator          : still blocked after 5s')
    defect = True

  # 2. Through the worker pool (with a call timeout, else it would hang).
  pool = courier_worker.WorkerPool(['hunt5_worker'], call_timeout=1)
  pool.wait_until_alive()
  tasks = [lazy_fns.trace(make_pipeline)().make()]
  try:
    out = list(
        pool.iterate(
            tasks,
            generator_result_queue=queue.SimpleQueue(),
            retry_threshold=2,
        )
    )
    print('WorkerPool.iterate returned        :', out)
    defect = True
  except Exception as e:  # pylint: disable=broad-exception-caught
    print('WorkerPool.iterate raised          :', repr(e))
    print('  cause                            :', repr(e.__cause__))
    mentions = 'cannot open' in f'{e!r} {e.__cause__!r}'
    print('  mentions the real failure        :', mentions)
    defect |= not mentions

  if defect:
    print(
        'DEFECT: the failure of the generator is never delivered; requests'
        ' block forever / are retried as timeouts.'
    )
    return 1
  print('no defect observed')
  return 0


if __name__ == '__main__':
  rc = main()
  sys.stdout.flush()
  os._exit(rc)
