# Property C06: "... Non-retriable task errors surface to the caller as errors
# ... and all workers are released afterwards."
#
# WorkerPool.iterate() (the engine of sharded_pipelines_as_iterator) with two
# shards on two workers: shard 0 fails with an application error while shard 1
# is still being iterated on the other worker. iterate() correctly raises
# RuntimeError, but the worker that was still iterating is never given back:
# its CourierClient keeps a never-completing entry in `_pendings`, so
# `has_capacity` is False forever, WorkerPool.idle_workers() /
# next_idle_worker() skip it forever, and a later run that needs this (healthy,
# idle, alive) worker spins forever.
#
# Cause: CourierClient.async_iterate (courier_utils.py) blocks the worker with an
# artificial pending future `generator_state` that is only resolved in the
# coroutine's `finally: generator_state.cancel()`. When iterate() aborts
# (courier_worker.py, the `finally:` of iterate) it does
#     task.state.cancel()                               # per running task
#     event_loop.call_soon_threadsafe(event_loop.stop)
# The cancellation of the asyncio task needs one more loop iteration to be
# thrown into the coroutine, but the loop is stopped in the same batch of
# callbacks, then joined and closed. The coroutine is never resumed, its
# `finally` never runs and `generator_state` stays pending forever. The same
# happens when iterate() gives up after too many timeouts or when the consumer
# stops early. (It is a race between two threads; it triggers in most attempts,
# the script tries up to 8 times.)
import logging
import os
import queue
import sys
import threading
import time

logging.disable(logging.CRITICAL)
threading.excepthook = lambda args: None
sys.path.insert(0, '/tmp/hunt-distributed/hunt_stub')
import courier  # pylint: disable=g-import-not-at-top,unused-import

from ml_metrics._src.chainables import courier_server
from ml_metrics._src.chainables import courier_worker
from ml_metrics._src.chainables import lazy_fns


def shard(shard_index, num_elements=200, fail=True):
  if fail and shard_index == 0:
    time.sleep(0.3)
    raise ValueError('application error in shard 0')
  for i in range(num_elements):
    time.sleep(0.01)
    yield shard_index, i
  return f'state of shard {shard_index}'


def attempt(k: int) -> bool:
  servers = [
      courier_server.PrefetchedCourierServer(f'hunt9_{k}_{i}') for i in range(2)
  ]
  for s in servers:
    s.start()
  pool = courier_worker.WorkerPool([s.address for s in servers])
  pool.wait_until_alive(minimum_num_workers=2)
  tasks = [lazy_fns.trace(shard)(i) for i in range(2)]
  try:
    list(pool.iterate(tasks, generator_result_queue=queue.SimpleQueue()))
    raised = None
  except Exception as e:  # pylint: disable=broad-exception-caught
    raised = e
  print(f'attempt {k}: iterate raised {raised!r}')
  time.sleep(3)  # far more than any in-flight call needs to finish.
  stuck = [w for w in pool.all_workers if w.is_alive and not w.has_capacity]
  for w in pool.all_workers:
    pend = [(type(p.state).__name__, 'done' if p.state.done() else 'PENDING')
            for p in w.pendings]
    print(f'  3s later {w.address}: alive={w.is_alive}'
          f' has_capacity={w.has_capacity} pendings={pend}')
  if not stuck:
    return False

  # A later run that needs the stuck worker never makes progress.
  pool2 = courier_worker.WorkerPool(stuck)
  got = []

  def rerun():
    task = [lazy_fns.trace(shard)(1, 3, False)]
    got.extend(pool2.iterate(task, generator_result_queue=queue.SimpleQueue()))

  t = threading.Thread(target=rerun, daemon=True)
  t.start()
  t.join(5)
  print(f'  new 3-element run on {[w.address for w in stuck]} after 5s:'
        f' finished={not t.is_alive()} outputs={got}')
  return t.is_alive()


def main() -> int:
  for k in range(8):
    if attempt(k):
      print(
          'DEFECT: after iterate() raised, a healthy worker stays blocked'
          ' forever (never-completing pending state), later runs on it hang.'
      )
      return 1
  print('no defect observed')
  return 0


if __name__ == '__main__':
  rc = main()
  sys.stdout.flush()
  os._exit(rc)
