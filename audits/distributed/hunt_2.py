# Property C15 (prefetching generator protocol): "... a generator failure is
# delivered as that exception after the elements produced before it", "for every
# prefetch size and requested batch size".
#
# A generator yields 0,1,2,3,4 and then raises ValueError. A client that asks
# for batches of 1 or 5 receives 0..4 and then the ValueError, but a client that
# asks for batches of 2, 3 or 4 silently loses the elements of the last, partial
# batch (e.g. batch size 3 delivers only 0,1,2 before the error).
#
# Cause: PrefetchedCourierServer._next_batch (courier_server.py) does
#     result = []
#     try:
#       result = self._generator.get_batch(batch_size, block=True)
#     except Exception: pass
# and IteratorQueue.get_batch (iter_utils.py) *raises* the generator's exception
# when it hits the end of a failed queue, even though it already dequeued a
# partial batch into its local `result` (the `(exhausted and result)` guard only
# covers StopIteration). The dequeued elements are dropped with the stack frame,
# `result` stays [] and only the exception marker is sent.
import asyncio
import logging
import queue
import sys
import threading

logging.disable(logging.CRITICAL)
threading.excepthook = lambda args: None  # the prefetch thread re-raises.
sys.path.insert(0, '/tmp/hunt-distributed/hunt_stub')
import courier  # pylint: disable=g-import-not-at-top,unused-import

from ml_metrics._src.chainables import courier_server
from ml_metrics._src.chainables import lazy_fns
from ml_metrics._src.utils import courier_utils

N_BEFORE_FAILURE = 5


def failing_generator():
  for i in range(N_BEFORE_FAILURE):
    yield i
  raise ValueError('boom')


def iterate(prefetch_size: int, batch_size: int):
  name = f'hunt2_{prefetch_size}_{batch_size}'
  server = courier_server.PrefetchedCourierServer(
      name, prefetch_size=prefetch_size
  )
  server.start()
  client = courier_utils.CourierClient(name, iterate_batch_size=batch_size)
  client.wait_until_alive()
  received = []

  async def run():
    task = courier_utils.GeneratorTask.new(
        lazy_fns.trace(failing_generator)()
    )
    async for elem in client.async_iterate(
        task, generator_result_queue=queue.SimpleQueue()
    ):
      received.append(elem)

  error = None
  try:
    asyncio.run(run())
  except Exception as e:  # pylint: disable=broad-exception-caught
    error = e
  server.stop()
  return received, error


def main() -> int:
  expected = list(range(N_BEFORE_FAILURE))
  bad = 0
  for prefetch_size in (1, 2, 8):
    for batch_size in (1, 2, 3, 4, 5, 7):
      received, error = iterate(prefetch_size, batch_size)
      lost = [x for x in expected if x not in received]
      flag = '' if not lost and isinstance(error, ValueError) else '  <-- LOST'
      bad += bool(flag)
      print(
          f'prefetch_size={prefetch_size} batch_size={batch_size}:'
          f' received={received} then {error!r}; lost={lost}{flag}'
      )
  if bad:
    print(
        f'DEFECT: in {bad} configurations elements produced before the'
        ' generator failure were never delivered.'
    )
    return 1
  print('no defect observed')
  return 0


if __name__ == '__main__':
  rc = main()
  sys.stdout.flush()
  import os

  os._exit(rc)
