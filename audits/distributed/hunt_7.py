# Property C20 (worker liveness bookkeeping): "A worker that was declared dead
# is never reported alive again merely because of a late or stale heartbeat".
#
# A worker server configured with `clients=[host]` pushes heartbeat(alive) to the
# host while it runs and heartbeat(dead) when it shuts down; the host's handler
# (CourierServer._heartbeat) stores them in the process wide WorkerRegistry.
# WorkerRegistry.refresh() (client side, used for call round trips) has the dead
# guard, but the path taken by pushed heartbeats, WorkerRegistry.register(), does
# not: it unconditionally overwrites the `None` ("pronounced dead") entry, and
# CourierServer._heartbeat stamps the heartbeat with the *receipt* time
# (`self._last_heartbeat = time.time()`), not with the time it was sent.
# So an "alive" heartbeat sent before the worker died but delivered after the
# "dead" notification resurrects the worker for a whole heartbeat threshold:
# Worker.is_alive is True and WorkerPool.workers lists it although the server is
# gone, and as_completed/iterate will schedule tasks on it.
#
# The two notifications are separate asynchronous RPCs (send_heartbeat returns a
# future), so their delivery order is not guaranteed. Below, the delivery of the
# first "alive" heartbeat of the worker is delayed by 1.5s (late heartbeat).
import logging
import os
import sys
import time

logging.disable(logging.CRITICAL)
sys.path.insert(0, '/tmp/hunt-distributed/hunt_stub')
import courier  # pylint: disable=g-import-not-at-top

from ml_metrics._src.chainables import courier_server
from ml_metrics._src.chainables import courier_worker
from ml_metrics._src.utils import courier_utils

HOST, WORKER = 'hunt7_host', 'hunt7_worker'
late = []


def delay_hook(address, method, args, kwargs):
  del kwargs
  # heartbeat(sender_addr, is_alive) pushed by the worker to the host.
  if address == HOST and method == 'heartbeat' and args == (WORKER, True):
    if not late:
      late.append(time.time())
      return 1.5
  return 0


def main() -> int:
  courier.set_delay_hook(delay_hook)
  host = courier_server.CourierServer(HOST)
  host.start()
  courier_worker.wait_until_alive(HOST)

  worker_server = courier_server.CourierServer(WORKER, clients=[HOST])
  t0 = time.time()
  worker_server.start()  # pushes heartbeat(alive) - in transit for 1.5s.
  pool = courier_worker.WorkerPool([WORKER], heartbeat_threshold_secs=61)
  worker = pool.all_workers[0]
  worker.wait_until_alive(deadline_secs=10)
  print(f't={time.time() - t0:.1f}s worker alive (probed by the client):',
        worker.is_alive)

  worker_server.stop().join()  # pushes heartbeat(dead), then stops serving.
  time.sleep(0.3)
  registry = courier_utils.worker_registry()
  print(f't={time.time() - t0:.1f}s worker stopped; registry entry:',
        registry.data.get(WORKER), '-> is_alive:', worker.is_alive)
  declared_dead = registry.data.get(WORKER, 0) is None and not worker.is_alive

  time.sleep(max(0.0, late[0] + 2.0 - time.time()))  # late heartbeat lands.
  entry = registry.data.get(WORKER)
  alive_again = worker.is_alive
  print(f't={time.time() - t0:.1f}s after the late "alive" heartbeat; registry'
        f' entry: {entry} -> is_alive: {alive_again};'
        f' pool.workers: {[w.address for w in pool.workers]}')
  print('worker server actually serving:', worker_server.has_started)
  if declared_dead and alive_again:
    print(
        'DEFECT: a worker that was declared dead is reported alive again'
        ' because of a late heartbeat.'
    )
    return 1
  print('no defect observed')
  return 0


if __name__ == '__main__':
  rc = main()
  sys.stdout.flush()
  os._exit(rc)
