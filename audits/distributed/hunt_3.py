# Properties C06 ("... all workers are released afterwards") and C20 ("when a
# pool-level operation returns or raises, none of its workers remains
# acquired").
#
# run_pipeline_interleaved() with three stages: datasource (in process) ->
# 'apply' (remote, on a worker pool) -> 'post' (in process). When 'post' fails
# on some batch while 'apply' is still busy, the `with` block raises
# ValueError('chainable: stage 2 failed ...') to the caller, but the worker pool
# of the remote stage keeps its workers acquired forever and the remote stage's
# thread spins forever in iterate_with_worker_pool(). (The same happens when the
# upstream stage fails and one remote worker is slower to notice than the
# consumer.)
#
# Cause (orchestrate.py): RunnerState.wait() waits with FIRST_EXCEPTION and then
# unconditionally stops the shared asyncio event loop
# (`self.event_loop.call_soon_threadsafe(self.event_loop.stop)`), while the
# remote stage still has coroutines (result_q.async_enqueue_from_iterator) on
# that loop. Those futures can never complete any more, so in
# iterate_with_worker_pool() `iterating` never drains, `worker.release()` is
# never reached and wait_and_maybe_raise() re-raises without releasing anything.
import logging
import os
import sys
import threading
import time

logging.disable(logging.CRITICAL)
threading.excepthook = lambda args: None
sys.path.insert(0, '/tmp/hunt-distributed/hunt_stub')
import courier  # pylint: disable=g-import-not-at-top,unused-import

from ml_metrics._src.chainables import courier_server
from ml_metrics._src.chainables import courier_worker
from ml_metrics._src.chainables import orchestrate
from ml_metrics._src.chainables import transform

POOL = None
N_BATCHES = 20000


def post(x):
  if x == 50:
    raise ValueError('post-processing failed')
  return x


def main() -> int:
  global POOL
  servers = [
      courier_server.PrefetchedCourierServer(f'hunt3_worker_{i}')
      for i in range(2)
  ]
  for s in servers:
    s.start()
  POOL = courier_worker.WorkerPool([s.address for s in servers])
  master = courier_server.CourierServer('hunt3_master')
  pipeline = (
      transform.TreeTransform.new(name='datasource')
      .data_source(range(N_BATCHES))
      .chain(transform.TreeTransform.new(name='apply').apply(fn=lambda x: x + 1))
      .chain(transform.TreeTransform.new(name='post').apply(fn=post))
  )
  consumed = []
  raised = None
  try:
    with orchestrate.run_pipeline_interleaved(
        pipeline,
        master_server=master,
        resources={'apply': orchestrate.RunnerResource(worker_pool=POOL)},
    ) as runner:
      try:
        for batch in runner.result_queue:
          consumed.append(batch)
      except Exception as e:  # pylint: disable=broad-exception-caught
        print('consumer saw:', repr(e))
  except Exception as e:  # pylint: disable=broad-exception-caught
    raised = e
  print('number of outputs consumed before the failure:', len(consumed))
  print('run_pipeline_interleaved raised    :', repr(raised))
  print('  caused by                         :', repr(raised.__cause__))

  # Give the remote stage plenty of time to wind down by itself.
  deadline = time.time() + 10
  while POOL.acquired_workers and time.time() < deadline:
    time.sleep(0.1)
  leaked = [w.address for w in POOL.acquired_workers]
  stage_done = [s.state.done() for s in runner.stages]
  print('10s after the error was raised:')
  print('  workers still acquired by the pool:', leaked, '(expected [])')
  print('  stage futures done                :', stage_done)
  print('  event loop still running          :', runner.event_loop.is_running())
  if raised is not None and leaked:
    print(
        'DEFECT: the pipeline raised to the caller but its worker pool still'
        ' owns workers (and the remote stage thread spins forever).'
    )
    return 1
  print('no defect observed')
  return 0


if __name__ == '__main__':
  rc = main()
  sys.stdout.flush()
  os._exit(rc)  # the leaked (non-daemon) stage thread would block the exit.
