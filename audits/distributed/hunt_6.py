# Property C15 (prefetching generator protocol): "Initialising a new generator
# ... stops the previous one, never mixes elements of two generators", "for all
# interleavings of the prefetch thread with request handling, ...
# re-initialisation ...".
#
# Client A iterates generator GA on a prefetching server and has a
# next_batch_from_generator request blocked on the server (GA is slow). Client B
# initialises a new generator GB on the same server. The protocol answer for A's
# blocked request should be the TimeoutError('A generator was stopped before
# exhausted.') marker, which ends A's iteration with an error. For the
# interleaving forced below A's request instead returns an *empty batch without
# any marker*, A's client loop (CourierClient.async_iterate) just asks again and
# from then on receives GB's elements and finally GB's return value as if they
# were GA's: two generators are mixed, A never learns that GA was stopped, and B
# loses those elements.
#
# Cause: PrefetchedCourierServer._next_batch (courier_server.py) re-reads
# `self._generator` after get_batch() without holding `_generator_lock`:
#     result = self._generator.get_batch(...)   # old queue, raises TimeoutError
#     ...
#     if not self._generator:                   # may already be the NEW queue
#       ... append exception / StopIteration marker
# If _init_iterator installs the new queue between those two reads, the new
# queue is not exhausted, so neither marker is appended and [] is returned.
#
# The interleaving is forced by delaying the request thread right after
# get_batch() raised (a thread can be descheduled there); nothing else is
# altered.
import asyncio
import logging
import os
import queue
import sys
import threading
import time

logging.disable(logging.CRITICAL)
sys.path.insert(0, '/tmp/hunt-distributed/hunt_stub')
import courier  # pylint: disable=g-import-not-at-top,unused-import

from ml_metrics._src.chainables import courier_server
from ml_metrics._src.chainables import lazy_fns
from ml_metrics._src.utils import courier_utils
from ml_metrics._src.utils import iter_utils

GATE = threading.Event()
NEW_GENERATOR_INSTALLED = threading.Event()


def generator_a():
  yield 'A0'
  yield 'A1'
  GATE.wait()  # slow element: A's next request blocks on the server.
  yield 'A2'
  yield 'A3'
  return 'return value of A'


def generator_b():
  for i in range(4):
    yield f'B{i}'
  return 'return value of B'


# cloudpickle would pickle __main__ functions (and the events) by value.
generator_a.__module__ = generator_b.__module__ = 'hunt_6_gens'
sys.modules['hunt_6_gens'] = sys.modules[__name__]

_orig_get_batch = iter_utils.IteratorQueue.get_batch


def _get_batch_with_preemption(self, *args, **kwargs):
  try:
    return _orig_get_batch(self, *args, **kwargs)
  except TimeoutError:
    # The request thread is descheduled here until the new generator is in.
    NEW_GENERATOR_INSTALLED.wait(10)
    time.sleep(0.05)
    raise


def main() -> int:
  iter_utils.IteratorQueue.get_batch = _get_batch_with_preemption
  server = courier_server.PrefetchedCourierServer('hunt6_worker', prefetch_size=2)
  server.start()
  client_a = courier_utils.CourierClient('hunt6_worker', iterate_batch_size=2)
  client_b = courier_utils.CourierClient(
      'hunt6_worker', iterate_batch_size=2, call_timeout=30
  )
  assert client_a is not client_b
  client_a.wait_until_alive()

  received_a, returned_a, error_a = [], queue.SimpleQueue(), []

  def run_a():
    async def iterate():
      task = courier_utils.GeneratorTask.new(lazy_fns.trace(generator_a)())
      async for elem in client_a.async_iterate(
          task, generator_result_queue=returned_a
      ):
        received_a.append(elem)

    try:
      asyncio.run(iterate())
    except Exception as e:  # pylint: disable=broad-exception-caught
      error_a.append(e)

  thread_a = threading.Thread(target=run_a)
  thread_a.start()
  while received_a != ['A0', 'A1']:
    time.sleep(0.01)
  time.sleep(0.3)  # A's second request is now blocked on the server.

  def init_b():
    state = client_b.call(
        lazy_fns.trace(generator_b)(), courier_method='init_generator'
    ).result()
    assert state is None, state
    NEW_GENERATOR_INSTALLED.set()

  thread_b = threading.Thread(target=init_b)
  thread_b.start()
  time.sleep(0.2)
  GATE.set()  # lets the stopped prefetch thread of GA return.
  thread_b.join()
  thread_a.join(20)

  returned = []
  while not returned_a.empty():
    returned.append(returned_a.get())
  print('client A iterated generator_a and received :', received_a)
  print('client A recorded generator return values  :', returned)
  print('client A error                             :', error_a)
  mixed = [x for x in received_a if x.startswith('B')]
  if mixed or returned == ['return value of B']:
    print(
        'DEFECT: client A silently continued into the generator initialised'
        f' by client B (got {mixed}) instead of being told that its generator'
        ' was stopped.'
    )
    return 1
  print('no defect observed')
  return 0


if __name__ == '__main__':
  rc = main()
  sys.stdout.flush()
  os._exit(rc)
