"""C12 violation: a skippable data-source error + apply(fn_batch_size=...) silently truncates the stream.

Property C12: "With error skipping enabled, every element whose processing does
not raise a skippable error is delivered exactly once ... regardless of batching
options ...; elements after a failing one are never silently lost", quantified
over "failing elements (in the data source or in any operator)".

The data source below fails (ValueError) for index 3 only; SequenceDataSource /
_RangeIterator are built so that the read can continue after the error. Without
re-batching, `apply` delivers 9 of the 10 elements. With fn_batch_size=2 /
batch_size=2 the stream silently ends: element 2 (already read and sitting in
the re-batch buffer) and elements 4..9 are never delivered, no error is raised.

Cause: TreeFn._iterate feeds the source through the `rebatched_args` generator
(tree_fns.py:238-244) *inside* map_ignore_error. The source error passes through
that generator, which is thereby finished (its buffer is dropped);
iter_ignore_error swallows the error, calls next() and gets StopIteration.
"""
import sys
from absl import logging
logging.set_verbosity(logging.FATAL)
from ml_metrics._src.chainables import io
from ml_metrics._src.chainables import transform


class Rows:
  """A random-access source whose row 3 cannot be read."""

  def __len__(self):
    return 10

  def __getitem__(self, i):
    if isinstance(i, slice):
      return [self[j] for j in range(*i.indices(len(self)))]
    if i == 3:
      raise ValueError(f'corrupt row {i}')
    return {'a': [i]}


def run(**kwargs):
  p = (
      transform.TreeTransform.new()
      .data_source(io.SequenceDataSource(Rows()))
      .apply(fn=lambda a: [x * 10 for x in a], input_keys='a', output_keys='b',
             **kwargs)
  )
  out = list(p.make().iterate(ignore_error=True))
  return [v // 10 for r in out for v in r['b']]


expected = [i for i in range(10) if i != 3]
plain = run()
rebatched = run(fn_batch_size=2, batch_size=2)
print('expected rows                    :', expected)
print('apply, no rebatching             :', plain)
print('apply, fn_batch_size=2, bs=2     :', rebatched)
bad = plain != expected or rebatched != expected
if bad:
  print('DEFECT: rows after (and one before) the unreadable row were silently'
        ' lost.')
sys.exit(1 if bad else 0)
