"""C02 violation: a restricted-value slice over a feature cross (dict with two features) always crashes.

Property C02: "... for every slice key it reports exactly the aggregate over
the rows ... belonging to that slice, for single-feature slices, feature
crosses, fan-out slice functions, restricted value sets ...".

`add_slice({'a': [1]})` (one feature, restricted values) works and
`add_slice(('a', 'b'))` (cross) works, but the combination
`add_slice({'a': [1], 'b': [5, 6]})`, which Slicer.new explicitly accepts and
normalises into input_keys=('a', 'b') / within_values=((1,), (5, 6)), fails for
every batch with "SliceKey should have same number of features and values".

Cause: Slicer.new._default_slice_fn (tree_fns.py:433-440) yields each feature
value on its own (`arg for arg, within in zip(args, within_values) if arg in
within`) instead of yielding the crossed tuple `args` when all features are
within their allowed values, so a 1-tuple value meets the 2-feature slice name.
"""
import sys
from absl import logging
logging.set_verbosity(logging.FATAL)
from ml_metrics._src.aggregates import base
from ml_metrics._src.chainables import transform
from ml_metrics._src.chainables import tree_fns

T = transform.TreeTransform.new
MetricKey, SliceKey = transform.MetricKey, tree_fns.SliceKey


class Sum(base.AggregateFn):

  def create_state(self):
    return 0

  def update_state(self, state, x):
    return state + int(sum(x))

  def get_result(self, state):
    return state


batches = [
    {'x': [1, 2, 3, 4], 'a': [1, 1, 2, 2], 'b': [5, 6, 5, 7]},
    {'x': [10, 20], 'a': [1, 1], 'b': [7, 5]},
]
allowed = {'a': (1,), 'b': (5, 6)}
expected = {'s': 0}
for batch in batches:
  for x, a, b in zip(batch['x'], batch['a'], batch['b']):
    expected['s'] += x
    if a in allowed['a'] and b in allowed['b']:
      key = MetricKey('s', SliceKey(('a', 'b'), (a, b)))
      expected[key] = expected.get(key, 0) + x


def run(slice_spec):
  p = T().aggregate(fn=Sum(), input_keys='x', output_keys='s')
  p = p.add_slice(slice_spec)
  try:
    return p.make()(input_iterator=iter(batches))
  except Exception as e:  # pylint: disable=broad-exception-caught
    return f'RAISED {type(e).__name__}: {e}'


print('single restricted feature {"a": [1]}  :', run({'a': [1]}))
print('plain cross ("a", "b")                :', run(('a', 'b')))
got = run({'a': [1], 'b': [5, 6]})
print('restricted cross {"a":[1],"b":[5,6]}  :', got)
print('brute force for the restricted cross  :', expected)
bad = got != expected
if bad:
  print('DEFECT: the restricted-value feature cross cannot be computed.')
sys.exit(1 if bad else 0)
