# Property C02 (sliced aggregates equal a brute-force group-by).
#
# chain() FUSES two transforms of the same name (the documented behaviour for
# unnamed transforms, name == ''). TreeTransform._chain_and_fuse checks the
# aggregate output keys for conflicts but simply concatenates the slicers
# (`slicers=self.slicers + child.slicers`), it does not apply the duplicate
# slice-name check that add_slice() enforces. Two reusable metric blocks that
# both slice by the same feature therefore end up with two slicers of the same
# name: TransformRunner.update_state() runs every slicer for every aggregate, so
# each MetricKey(metric, slice) state is updated TWICE per batch and every sliced
# aggregate is double counted (the unsliced values stay correct). The same
# pipeline built from two differently named transforms, or each block on its own,
# reports the correct per-slice values.
#
# Exit 1 = defect present.
import sys

from ml_metrics._src.chainables import transform as T


class Sum:

  def create_state(self):
    return 0

  def update_state(self, state, x):
    return state + sum(x)

  def merge_states(self, states):
    return sum(states)

  def get_result(self, state):
    return state


BATCHES = [
    {'x': [1, 2], 'y': [10, 20], 'a': ['u', 'v']},
    {'x': [3], 'y': [30], 'a': ['u']},
]


def brute_force():
  exp = {}
  for col in ('x', 'y'):
    exp[(col, None)] = sum(v for b in BATCHES for v in b[col])
    for b in BATCHES:
      for v, a in zip(b[col], b['a']):
        exp[(col, a)] = exp.get((col, a), 0) + v
  return exp


def run(p):
  it = p.make().iterate(BATCHES)
  for _ in it:
    pass
  got = {}
  for k, v in it.agg_result.items():
    if isinstance(k, T.MetricKey):
      got[(k.metrics[1:], k.slice.values[0])] = v
    else:
      got[(k[1:], None)] = v
  return got


def blocks(name_a, name_b):
  a = (
      T.TreeTransform(name=name_a)
      .aggregate(Sum(), input_keys='x', output_keys='sx')
      .add_slice('a')
  )
  b = (
      T.TreeTransform(name=name_b)
      .aggregate(Sum(), input_keys='y', output_keys='sy')
      .add_slice('a')
  )
  return a, b


exp = brute_force()
print('brute force           :', sorted(exp.items(), key=str))

a, b = blocks('A', 'B')
named = run(a.chain(b))
print('chain of named blocks :', sorted(named.items(), key=str))

a, b = blocks('', '')
fused = run(a.chain(b))
print('chain of unnamed (fused) blocks:', sorted(fused.items(), key=str))
print(
    'slicers of the fused transform:',
    [s.slice_name for s in a.chain(b).slicers],
)

if named != exp:
  print('UNEXPECTED: the named chain is wrong as well')
  sys.exit(1)
if fused != exp:
  wrong = {k: (fused.get(k), v) for k, v in exp.items() if fused.get(k) != v}
  print('DEFECT: fused chain reports (got, expected):', wrong)
  sys.exit(1)
print('OK')
sys.exit(0)
