# Property C12 (error skipping drops only the failing elements, elements after
# a failing one are never silently lost).
#
# Incomplete repair of fix 8721d99 ("filter() honours ignore_error"): only the
# CALL of the predicate runs inside the error-skipping machinery
# (processed_with_inputs / iter_ignore_error). Its result is unpacked and
# truth-tested afterwards, in the generator expression of FilterFn.iterate
#     (elem for (value,), elem in it_ if value)
# When the predicate returns something that cannot be truth-tested for ONE record
# (e.g. `lambda a: a > 1` on a record whose column has two elements: "truth value
# of an array is ambiguous", a ValueError) the exception is raised inside that
# generator expression and finishes it. With ignore_error=True the next operator
# swallows the ValueError as an ordinary element error, asks for the next
# element, gets StopIteration from the dead generator, and the stream ENDS: every
# record behind the failing one is lost without any error. (When the filter is
# the last operator the ValueError aborts the run although ignore_error is set.)
#
# Exit 1 = defect present.
import sys

from ml_metrics._src.chainables import transform as T
import numpy as np

records = [
    {'a': np.array([1])},
    {'a': np.array([2])},
    {'a': np.array([3, 4])},  # `a > 1` is not a truth value for this record
    {'a': np.array([5])},
    {'a': np.array([6])},
]
pipeline = (
    T.TreeTransform()
    .filter(lambda a: a > 1, input_keys='a')
    .assign('s', fn=lambda a: int(a.sum()), input_keys='a')
)

# Reference: the failing record is dropped, nothing else.
expected = [2, 5, 6]
try:
  got = [r['s'] for r in pipeline.make().iterate(records, ignore_error=True)]
  error = None
except Exception as e:  # pylint: disable=broad-exception-caught
  got, error = None, e

print('filter(a > 1).assign(s) with ignore_error=True')
print('   expected s:', expected)
print('   got      s:', got, '' if error is None else f'raised {error!r}')

# Control: the same failure raised by the predicate itself is skipped correctly.
def strict_pred(a):
  return bool(a > 1)  # raises inside the predicate

control = (
    T.TreeTransform()
    .filter(strict_pred, input_keys='a')
    .assign('s', fn=lambda a: int(a.sum()), input_keys='a')
)
got_control = [
    r['s'] for r in control.make().iterate(records, ignore_error=True)
]
print('   control (error raised inside the predicate):', got_control)

if got != expected:
  lost = [x for x in expected if got is None or x not in got]
  print(f'DEFECT: records {lost} were silently lost, no error was raised')
  sys.exit(1)
print('OK')
sys.exit(0)
