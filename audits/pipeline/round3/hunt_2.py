# Property C08 (assign adds exactly the named keys and leaves the rest alone;
# operators route data as a reference interpreter).
#
# Regression / incomplete repair of fix 02649d8 ("assign with batch_size rejects
# input batches of another size"). Assign._assign_outputs now compares the rows
# of the re-batched output with
#     iter_utils.batch_size(self._get_inputs(inputs)[0])
# i.e. with len() of the FIRST selected input, whatever that input is:
#   * with the DEFAULT input_keys (Key.SELF) the first input is the whole record,
#     len(record) is its number of KEYS, not of rows: a correctly aligned
#     pipeline (every batch has exactly batch_size rows) is rejected with
#     "mismatch of 2 output rows and 3 input rows", and a really misaligned one
#     still passes when the record happens to have batch_size keys, so the
#     original defect (a column assigned to the wrong batch) is still there;
#   * when the first input is a Key.Literal (supported by fix a150b13) or a
#     per-batch scalar, the check raises TypeError('Non sequence type') or
#     compares with the length of the constant.
# The same pipelines without batch_size (or with the literal in second
# position) give the expected result.
#
# Exit 1 = defect present.
import sys

from ml_metrics._src.chainables import transform as T
from ml_metrics._src.chainables import tree

Key = tree.Key
defects = []


def attempt(name, pipeline, records, expected):
  try:
    got = list(pipeline.make().iterate(records))
  except Exception as e:  # pylint: disable=broad-exception-caught
    got = f'{type(e).__name__}: {e}'
  ok = got == expected
  print(f'{name}\n   got      {got}\n   expected {expected}')
  if not ok:
    defects.append(name)


def add_ab(record):
  return [x + y for x, y in zip(record['a'], record['b'])]


# 1. Default input (SELF), every batch has exactly batch_size == 2 rows.
records = [
    {'a': [1, 2], 'b': [3, 4], 'z': [5, 6]},
    {'a': [7, 8], 'b': [9, 10], 'z': [0, 0]},
]
expected = [dict(r, c=add_ab(r)) for r in records]
attempt(
    '1. assign(c, fn, batch_size=2), default input SELF, aligned batches',
    T.TreeTransform().assign('c', fn=add_ab, batch_size=2),
    records,
    expected,
)

# 2. Default input (SELF), batches of 1 and 3 rows with batch_size=2: the output
# rows cannot be paired with the input batches, fix 02649d8 promises an error.
records = [{'a': [1], 'b': [3]}, {'a': [7, 8, 9], 'b': [9, 10, 11]}]
try:
  got = list(
      T.TreeTransform()
      .assign('c', fn=add_ab, batch_size=2)
      .make()
      .iterate(records)
  )
  misaligned = [r for r in got if len(r['c']) != len(r['a'])]
  print(
      '2. assign(c, fn, batch_size=2), default input SELF, batches of 1 and 3'
      f' rows\n   got      {got}'
  )
  if misaligned:
    print('   -> silently misaligned column c (no error)')
    defects.append('2. misaligned batches accepted')
except ValueError as e:
  print(f'2. rejected as promised: {e}')

# 3. A literal as the first input.
records = [{'a': [1, 2]}, {'a': [3, 4]}]
scale = lambda k, a: [k * x for x in a]
expected = [{'a': [1, 2], 'c': [3, 6]}, {'a': [3, 4], 'c': [9, 12]}]
attempt(
    '3. assign(c, fn, input_keys=(Literal(3), a), batch_size=2)',
    T.TreeTransform().assign(
        'c', fn=scale, input_keys=(Key.Literal(3), 'a'), batch_size=2
    ),
    records,
    expected,
)
attempt(
    '3b. control: literal in second position',
    T.TreeTransform().assign(
        'c',
        fn=lambda a, k: scale(k, a),
        input_keys=('a', Key.Literal(3)),
        batch_size=2,
    ),
    records,
    expected,
)

if defects:
  print('DEFECT:', defects)
  sys.exit(1)
print('OK')
sys.exit(0)
