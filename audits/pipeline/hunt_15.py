"""C02/C08 violation: an aggregate that takes a Key.Literal constant cannot be sliced.

Property C02: "Adding or removing slicers never changes the unsliced result
...", for "all pipelines (choice of input/output keys, ...)"; C08 lists
"literal" among the supported key shapes.

`aggregate(fn, input_keys=('score', Key.Literal(0.5)))` feeds the constant 0.5
as the threshold argument and works. Adding `.add_slice('f')` makes every batch
fail with "Masks and inputs have to be of types ... type(items)=<class 'float'>".

Cause: TreeFn._apply_masks (tree_fns.py:159-173) applies the single row mask of
the slicer to EVERY selected input, including the literal constant, which is
not a per-row column.
"""
import sys
from absl import logging
logging.set_verbosity(logging.FATAL)
from ml_metrics._src.aggregates import base
from ml_metrics._src.chainables import transform
from ml_metrics._src.chainables import tree
from ml_metrics._src.chainables import tree_fns

T = transform.TreeTransform.new
MetricKey, SliceKey = transform.MetricKey, tree_fns.SliceKey


class CountAbove(base.AggregateFn):

  def create_state(self):
    return 0

  def update_state(self, state, scores, threshold):
    return state + sum(1 for s in scores if s > threshold)

  def get_result(self, state):
    return state


batches = [{'score': [0.1, 0.9, 0.7], 'f': ['a', 'b', 'a']}]
expected = {
    'n': 2,
    MetricKey('n', SliceKey(('f',), ('a',))): 1,
    MetricKey('n', SliceKey(('f',), ('b',))): 1,
}
p = T().aggregate(
    fn=CountAbove(),
    input_keys=('score', tree.Key.Literal(0.5)),
    output_keys='n',
)
print('without slicer:', p.make()(input_iterator=iter(batches)))
try:
  got = p.add_slice('f').make()(input_iterator=iter(batches))
except Exception as e:  # pylint: disable=broad-exception-caught
  got = f'RAISED {type(e).__name__} cause={e.__cause__!r}'
print('with slicer   :', got)
print('brute force   :', expected)
bad = got != expected
if bad:
  print('DEFECT: slicing breaks an aggregate with a literal input.')
sys.exit(1 if bad else 0)
