"""C02 / C08: an aggregate with Key.SKIP among its output_keys is accepted when the pipeline
is built and fails only at the very end of the run, after the whole stream was aggregated.

Key.SKIP is the documented way to drop one of several outputs (TreeTransform docstring:
output_keys=('image_bytes', 'label_id', Key.SKIP, 'label_text')); apply / assign / select
honour it. For aggregate(fn, output_keys=('s', Key.SKIP)):
  * TreeAggregateFn.get_result() drops the skipped output correctly ({'s': 15.0}), but
    TransformRunner.get_result (transform.py ~L414) reads every output key back with
    `tree.TreeMapView(outputs)[key.metrics]`, SKIP included -> KeyError: Reserved('SKIP').
    The error appears in agg_result / __call__ only after every batch was consumed, and
    ChainedRunner.iterate() cannot even finish (the result is built in StopIteration).
  * two stacked aggregates that each skip an output are rejected when built as
    "Duplicate output_keys: {SKIP}" (TreeTransform._check_assign_keys does not exclude SKIP,
    unlike _check_duplicate_output_keys used by apply / select), the same false duplicate
    rejects assign((Key.SKIP, 'b', Key.SKIP), fn=three_outputs).
Expected: the brute-force aggregate of the kept outputs ({'s': 15.0}, and per slice), or a
rejection when the pipeline is built - never a failure after the stream has been processed.
"""
import sys

from absl import logging as alog

alog.set_verbosity(alog.FATAL)

import numpy as np
from ml_metrics._src.aggregates import base
from ml_metrics._src.chainables import tree
from ml_metrics._src.chainables import tree_fns
from ml_metrics._src.chainables.transform import TreeTransform

Key = tree.Key


class SumAndCount(base.AggregateFn):

  def create_state(self):
    return [0.0, 0]

  def update_state(self, state, x):
    return [state[0] + float(np.sum(x)), state[1] + len(x)]

  def merge_states(self, states):
    return [sum(s[0] for s in states), sum(s[1] for s in states)]

  def get_result(self, state):
    return state[0], state[1]


consumed = []


def batches():
  for b in (
      {'x': np.array([1, 2, 3]), 'g': [1, 1, 2]},
      {'x': np.array([4, 5]), 'g': [2, 2]},
  ):
    consumed.append(1)
    yield b


defect = False

# The operator itself handles SKIP as documented.
fn = tree_fns.TreeAggregateFn(
    fn=SumAndCount(), input_keys='x', output_keys=('s', Key.SKIP)
)
print('TreeAggregateFn alone      :', fn({'x': np.array([1, 2, 3, 4, 5])}))

try:
  pipeline = TreeTransform().agg(
      SumAndCount(), input_keys='x', output_keys=('s', Key.SKIP)
  )
  runner = pipeline.make()
  print('built without error')
except Exception as e:  # pylint: disable=broad-exception-caught
  print('rejected when built (acceptable):', type(e).__name__, e)
  sys.exit(0)

try:
  result = runner(input_iterator=batches())
  print('aggregate(("s", SKIP))     :', result)
  if result != {'s': 15.0}:
    defect = True
except Exception as e:  # pylint: disable=broad-exception-caught
  print(
      f'aggregate(("s", SKIP))     : {type(e).__name__}: {e} raised after'
      f' {len(consumed)} of 2 batches were aggregated (expected {{"s": 15.0}})'
  )
  defect = True

try:
  result = (
      TreeTransform()
      .agg(SumAndCount(), input_keys='x', output_keys=(Key.SKIP, 'n'))
      .add_slice('g')
      .make()(input_iterator=batches())
  )
  print('with a slicer              :', result)
except Exception as e:  # pylint: disable=broad-exception-caught
  print(f'with a slicer              : {type(e).__name__}: {e}')
  defect = True

try:
  TreeTransform().agg(
      SumAndCount(), input_keys='x', output_keys=('s', Key.SKIP)
  ).add_agg(fn=SumAndCount(), input_keys='g', output_keys=(Key.SKIP, 'n'))
  print('two stacked aggregates with a skipped output each: built')
except Exception as e:  # pylint: disable=broad-exception-caught
  print(f'two stacked aggregates with a skipped output each: {type(e).__name__}: {e}')
  defect = True

three = lambda r: (1, 2, 3)
print(
    'apply((SKIP, "b", SKIP))   :',
    list(
        TreeTransform()
        .apply(three, output_keys=(Key.SKIP, 'b', Key.SKIP))
        .make()
        .iterate([{'a': 0}])
    ),
)
try:
  out = list(
      TreeTransform()
      .assign((Key.SKIP, 'b', Key.SKIP), fn=three)
      .make()
      .iterate([{'a': 0}])
  )
  print('assign((SKIP, "b", SKIP))  :', out)
except Exception as e:  # pylint: disable=broad-exception-caught
  print(f'assign((SKIP, "b", SKIP))  : {type(e).__name__}: {e}')
  defect = True

sys.exit(1 if defect else 0)
