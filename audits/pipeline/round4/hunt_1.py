"""C12 (error skipping drops only failing elements; later elements are never silently lost).

With ignore_error=True an operator that re-batches its OUTPUTS (apply(..., batch_size=n),
select(..., batch_size=n)) loses every record after the first element whose output cannot
be re-batched (e.g. the function returned None / a scalar for one bad record):
iter_utils.rebatched_args raises the TypeError / ValueError from inside its own generator
(_batch_size / _concat / column checks), which terminates the generator. The following
operator skips that error as an element error, asks again, gets StopIteration from the dead
generator and the run ends "normally" with a truncated stream / partial aggregate.
When the re-batching operator is the last one the same error aborts the run although
ignore_error=True. The input side of the re-batcher was repaired (a150b13 / 7aad6f0 validate
in front of the re-batcher), the output side (tree_fns.TreeFn._iterate, `if self.batch_size:`)
was not. This is not the known assign(batch_size) case: the function does not fail, the
operators are apply / select, and the error is raised by the re-batcher itself.
"""
import sys

from absl import logging as alog

alog.set_verbosity(alog.FATAL)

import numpy as np
from ml_metrics._src.aggregates import base
from ml_metrics._src.chainables import tree
from ml_metrics._src.chainables.transform import TreeTransform

Key = tree.Key


def model(rows):
  # One bad record: the function returns None instead of a column.
  return None if rows == [2] else [r * 10 for r in rows]


def ident(x):
  return x


class Count(base.AggregateFn):

  def create_state(self):
    return 0

  def update_state(self, state, x):
    return state + len(x)

  def merge_states(self, states):
    return sum(states)

  def get_result(self, state):
    return state


source = [[i] for i in range(8)]  # 8 records of one row each
defect = False

# Reference: without output re-batching every record gets through (None is just a value).
ref = list(
    TreeTransform().apply(model).apply(ident).make().iterate(source, ignore_error=True)
)
print('no rebatching      :', ref)

out = list(
    TreeTransform()
    .apply(model, batch_size=2)
    .apply(ident)
    .make()
    .iterate(source, ignore_error=True)
)
rows = [r for batch in out for r in batch]
print('apply(batch_size=2):', out)
expected_rows = [0, 10, 30, 40, 50, 60, 70]
if rows != expected_rows:
  print(f'  DEFECT: rows {sorted(set(expected_rows) - set(rows))} silently lost, no error')
  defect = True

# The same with an aggregate: a partial result is reported as if complete.
agg = (
    TreeTransform()
    .apply(model, batch_size=2)
    .apply(ident)
    .agg(Count(), output_keys='n')
    .make()
)
result = agg(input_iterator=source, ignore_error=True)
print('aggregate count    :', result, '(expected 7)')
if result != {'n': 7}:
  defect = True

# select(batch_size) with one record whose column is not a sequence.
recs = [{'a': [i]} for i in range(6)]
recs[2] = {'a': None}
out = list(
    TreeTransform()
    .select('a', batch_size=2)
    .apply(ident)
    .make()
    .iterate(recs, ignore_error=True)
)
print('select(batch_size) :', out)
if [r for b in out for r in b['a']] != [0, 1, 3, 4, 5]:
  print('  DEFECT: records after the bad one silently lost')
  defect = True

# As the last operator the very same element error aborts the run.
try:
  out = list(
      TreeTransform().apply(model, batch_size=2).make().iterate(source, ignore_error=True)
  )
  print('last operator      :', out)
except Exception as e:  # pylint: disable=broad-exception-caught
  print('last operator      : run aborted with', type(e).__name__, e)
  defect = True

sys.exit(1 if defect else 0)
