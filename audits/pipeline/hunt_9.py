"""C02 violation: adding a slicer to an aggregate that uses the default output key makes a working pipeline crash.

Property C02: "Adding or removing slicers never changes the unsliced result,
and no slice key is invented or dropped", for "all pipelines (choice of
input/output keys, stacked aggregates, slicer sets)".

`aggregate(fn, input_keys='x')` (default output key SELF) reports the scalar
mean. Adding `.add_slice('f')` to the very same pipeline does not add slice
results: the whole run fails while reading the result with
"TypeError: Insert to immutable <class 'float'> ...". The aggregation states
themselves are fine (the AggregateResult state contains both slices).

Cause: TransformRunner.get_result (transform.py:379-396) first sets the
un-sliced output with key (SELF,), which REPLACES the result root by the scalar,
and then tries to insert `MetricKey(SELF, slice)` entries into that scalar.
_check_assign_keys forbids mixing SELF with other output keys at build time, but
add_slice() does not apply that rule, so the invalid combination is only hit at
the very end of the run.
"""
import sys
from absl import logging
logging.set_verbosity(logging.FATAL)
from ml_metrics._src.aggregates import base
from ml_metrics._src.chainables import transform

T = transform.TreeTransform.new


class Mean(base.AggregateFn):

  def create_state(self):
    return (0, 0)

  def update_state(self, state, x):
    return (state[0] + sum(x), state[1] + len(x))

  def get_result(self, state):
    return state[0] / state[1] if state[1] else float('nan')


batches = [{'x': [1, 2, 3], 'f': ['a', 'b', 'a']}, {'x': [6], 'f': ['b']}]
unsliced = T().aggregate(fn=Mean(), input_keys='x')
sliced = unsliced.add_slice('f')
expected = unsliced.make()(input_iterator=iter(batches))
print('without slicer:', expected)
bad = False
try:
  got = sliced.make()(input_iterator=iter(batches))
  print('with slicer   :', got)
  # Any container that still exposes the un-sliced value 3.0 would be fine.
  bad = expected not in (got, getattr(got, 'get', lambda k: None)('SELF'))
except Exception as e:  # pylint: disable=broad-exception-caught
  print(f'with slicer   : RAISED {type(e).__name__}: {e}')
  bad = True
if bad:
  print('DEFECT: adding a slicer broke the (un-sliced) result.')
sys.exit(1 if bad else 0)
