"""C02 violation: add_slice(..., replace_mask_false_with=v) masks the wrong axis of multi-dimensional inputs.

Property C02: "for every slice key it reports exactly the aggregate over the
rows (or masked elements) belonging to that slice".

The default slicer produces one boolean per ROW of the batch. In "filter" mode
the rows are selected correctly (`np.asarray(items)[masks]`), but in "replace"
mode tree.apply_mask does `np.where(masks, items, replace_false_with)`
(tree.py:145-147). For a (batch, dim) input the 1-D row mask is broadcast along
the LAST axis: when batch == dim the mask silently selects COLUMNS instead of
rows (the slice aggregates values of rows that do not belong to it and drops
values of rows that do), when batch != dim it raises a broadcast error.
"""
import sys
from absl import logging
logging.set_verbosity(logging.FATAL)
from ml_metrics._src.aggregates import base
from ml_metrics._src.chainables import transform
from ml_metrics._src.chainables import tree_fns
import numpy as np

T = transform.TreeTransform.new
MetricKey, SliceKey = transform.MetricKey, tree_fns.SliceKey


class ColumnSum(base.AggregateFn):
  """Sums (batch, dim) embeddings over the batch axis."""

  def create_state(self):
    return 0

  def update_state(self, state, x):
    return state + np.asarray(x).sum(axis=0)

  def get_result(self, state):
    return np.asarray(state).tolist()


def brute_force(batches, replace):
  expected = {}
  total = 0
  for b in batches:
    total = total + b['x'].sum(axis=0)
    for value in ('a', 'b'):
      rows = np.array([f == value for f in b['f']])
      if not rows.any():
        continue
      masked = b['x'].copy()
      masked[~rows] = replace
      key = MetricKey('s', SliceKey(('f',), (value,)))
      expected[key] = expected.get(key, 0) + masked.sum(axis=0)
  expected = {k: v.tolist() for k, v in expected.items()}
  expected['s'] = total.tolist()
  return expected


def run(batches, **kwargs):
  p = (
      T()
      .aggregate(fn=ColumnSum(), input_keys='x', output_keys='s')
      .add_slice('f', **kwargs)
  )
  try:
    return p.make()(input_iterator=iter(batches))
  except Exception as e:  # pylint: disable=broad-exception-caught
    return f'RAISED {type(e).__name__}: cause={e.__cause__!r}'


bad = False
square = [{'x': np.array([[1, 2], [30, 40]]), 'f': ['a', 'b']}]
wide = [{'x': np.array([[1, 2, 3], [30, 40, 50]]), 'f': ['a', 'b']}]
for name, batches in (('batch=2, dim=2', square), ('batch=2, dim=3', wide)):
  expected = brute_force(batches, 0)
  got = run(batches, replace_mask_false_with=0)
  print(f'[{name}] x={batches[0]["x"].tolist()} f={batches[0]["f"]}')
  print('   brute force :', expected)
  print('   pipeline    :', got)
  bad |= got != expected
print('   (filter mode on the same data is row-wise and correct:',
      run(square), ')')
if bad:
  print('DEFECT: the replace-mode mask is applied to the wrong axis.')
sys.exit(1 if bad else 0)
