"""C08 violation: apply()/select() accept a repeated output key and silently drop an output at run time.

Property C08: "Invalid key combinations are rejected when the pipeline is built,
not silently mis-routed at run time."

`assign(('x', 'x'), ...)` is rejected at build time ("Duplicate output_keys
within ..."), but the same invalid combination in `apply(output_keys=('x','x'))`
and `select(('a','b'), output_keys=('x','x'))` is accepted: at run time the first
output is silently overwritten by the second one (TreeFn._get_outputs,
tree_fns.py:216-229, sets the keys one after another), so the record routes 'b'
to 'x' and loses 'a'. TreeTransform._check_assign_keys (transform.py:940-963)
is only called from assign() and add_aggregate(), not from apply()/select().
"""
import sys
from absl import logging
logging.set_verbosity(logging.FATAL)
from ml_metrics._src.chainables import transform

T = transform.TreeTransform.new
record = {'a': 1, 'b': 2}
builders = {
    'assign((x, x))': lambda: T().assign(
        ('x', 'x'), fn=lambda a, b: (a, b), input_keys=('a', 'b')
    ),
    'apply(output_keys=(x, x))': lambda: T().apply(
        fn=lambda a, b: (a, b), input_keys=('a', 'b'), output_keys=('x', 'x')
    ),
    'select((a, b), output_keys=(x, x))': lambda: T().select(
        ('a', 'b'), output_keys=('x', 'x')
    ),
}
bad = False
for name, build in builders.items():
  try:
    p = build()
  except (KeyError, ValueError) as e:
    print(f'{name:36s}: rejected at build time ({type(e).__name__})')
    continue
  out = list(p.make().iterate([dict(record)]))
  print(f'{name:36s}: ACCEPTED, {record} -> {out} (output for "a" is lost)')
  bad = True
if bad:
  print('DEFECT: a duplicate output key is mis-routed at run time instead of'
        ' being rejected.')
sys.exit(1 if bad else 0)
