"""C12 violation: after a skipped data-source error, checkpoint + restore delivers an element twice.

Property C12: "With error skipping enabled, every element whose processing does
not raise a skippable error is delivered exactly once, in order ...", for
failing elements "in the data source or in any operator" (the task explicitly
asks to combine checkpoint/restore with other features).

Row 2 of the source cannot be read and is skipped (both with the data source's
own ignore_error=True and with the runner's ignore_error=True). After 4 rows
(0, 1, 3, 4) were delivered, the iterator's `state` is taken and a new iterator
is restored from it. The restored iterator starts again at row 4, so row 4 is
delivered twice (and would be aggregated twice).

Cause: io.SequenceIterator.__next__ (io.py:134-138) only counts the elements it
*returned* (`self._index += 1` after a successful next), while the underlying
_RangeIterator advanced past the unreadable row as well (iter_utils.py:213-218).
`state.start_index` is therefore short by the number of skipped rows.
"""
import sys
from absl import logging
logging.set_verbosity(logging.FATAL)
from ml_metrics._src.chainables import io
from ml_metrics._src.chainables import transform


class Rows:

  def __len__(self):
    return 8

  def __getitem__(self, i):
    if isinstance(i, slice):
      return [self[j] for j in range(*i.indices(len(self)))]
    if i == 2:
      raise ValueError(f'corrupt row {i}')
    return i


expected = [0, 1, 3, 4, 5, 6, 7]
bad = False
for source_ignores in (True, False):
  source = io.SequenceDataSource(Rows(), ignore_error=source_ignores)
  p = transform.TreeTransform.new().data_source(source).apply(fn=lambda x: x)
  it = p.make().iterate(ignore_error=True)
  first = [next(it) for _ in range(4)]
  checkpoint = it.state
  rest = list(it.from_state(checkpoint))
  print(f'SequenceDataSource(ignore_error={source_ignores}):')
  print(f'   delivered before the checkpoint: {first}')
  print(f'   checkpoint: {checkpoint.input_states}')
  print(f'   delivered after the restore    : {rest}')
  print(f'   total {first + rest} expected {expected}')
  bad |= first + rest != expected
if bad:
  print('DEFECT: row 4 is delivered twice after the restore.')
sys.exit(1 if bad else 0)
