"""C02 violation: the reported aggregate result is not the aggregate function's result (falsy results vanish, arrays crash, tuples become lists).

Property C02: "The aggregate result a pipeline reports for a stream equals
applying the aggregate function directly to the selected input columns of all
batches".

`ChainedRunner.__call__`, `_ChainedRunnerIterator.agg_result` (and therefore the
AggregateResult returned by iterate()) and `ChainedRunner.get_result` do not
report TransformRunner.get_result()'s tree; they flatten it to leaf paths with
`TreeMapView.items()` and rebuild it with `copy_and_update`
(transform.py:520-529 and 613-619; tree._dfs_iter_tree, tree.py:296-320):

 * with the default output key (SELF) a *falsy* result (0, 0.0, False, '' ...)
   has no leaf path (`elif data: yield SELF`), so the pipeline reports an internal
   `tree.NullMap` placeholder object instead of e.g. an accuracy of 0.0 or a
   count of 0;
 * with the default output key a multi-element numpy result raises
   "truth value of an array ... is ambiguous" in that same `elif data`;
 * with ANY output key, tuples / namedtuples inside the result are rebuilt as
   plain lists (a namedtuple (mean, var) loses its field names).

TransformRunner.get_result on the very same state returns the right value, which
shows that only the reporting layer is wrong.
"""
import collections
import sys
from absl import logging
logging.set_verbosity(logging.FATAL)
from ml_metrics._src.aggregates import base
from ml_metrics._src.chainables import transform
from ml_metrics._src.chainables import tree
import numpy as np

T = transform.TreeTransform.new
Stats = collections.namedtuple('Stats', ['mean', 'var'])


class Accuracy(base.AggregateFn):
  """Fraction of correct predictions; 0.0 when nothing is correct."""

  def create_state(self):
    return (0, 0)

  def update_state(self, state, y_true, y_pred):
    correct = sum(int(t == p) for t, p in zip(y_true, y_pred))
    return (state[0] + correct, state[1] + len(y_true))

  def get_result(self, state):
    return state[0] / state[1] if state[1] else float('nan')


class Const(base.AggregateFn):
  """Returns a fixed result, to probe result container types."""

  def __init__(self, result):
    self.result = result

  def create_state(self):
    return 0

  def update_state(self, state, x):
    return state + 1

  def get_result(self, state):
    return self.result


def same(a, b):
  if type(a) is not type(b):
    return False
  if isinstance(a, np.ndarray):
    return np.array_equal(a, b)
  if isinstance(a, dict):
    return a.keys() == b.keys() and all(same(a[k], b[k]) for k in a)
  return a == b


bad = False

# 1. Accuracy 0.0 with the default output key.
batches = [
    {'y_true': [1, 0, 1], 'y_pred': [0, 1, 0]},
    {'y_true': [1, 1], 'y_pred': [0, 0]},
]
agg = Accuracy()
state = agg.create_state()
for b in batches:
  state = agg.update_state(state, b['y_true'], b['y_pred'])
expected = agg.get_result(state)
p = T().aggregate(fn=Accuracy(), input_keys=('y_true', 'y_pred'))
got = p.make()(input_iterator=iter(batches))
print(f'accuracy, default output key: expected {expected!r}, pipeline reported'
      f' {got!r}')
bad |= not same(expected, got)
it = p.make().iterate(iter(batches))
try:
  while True:
    next(it)
except StopIteration as e:
  print(f'   iterate() returned agg_result={e.value.agg_result!r}')
  bad |= not same(expected, e.value.agg_result)
p = T().aggregate(fn=Accuracy(), input_keys=('y_true', 'y_pred'),
                  output_keys='acc')
print(f'   (with output_keys="acc": {p.make()(input_iterator=iter(batches))!r})')

# 2. Other result values, default key and named key.
cases = [
    ('int 0', 0, tree.Key.SELF),
    ('False', False, tree.Key.SELF),
    ('np.array([1., 2.])', np.array([1.0, 2.0]), tree.Key.SELF),
    ('tuple (1, 2)', (1, 2), 'r'),
    ('namedtuple Stats', Stats(1.0, 2.0), 'r'),
    ('dict with tuple', {'ci': (0.1, 0.9)}, 'r'),
]
for name, result, key in cases:
  expected = result if key == tree.Key.SELF else {key: result}
  runner = T().aggregate(fn=Const(result), output_keys=key).make()
  try:
    got = runner(input_iterator=[1, 2])
  except Exception as e:  # pylint: disable=broad-exception-caught
    got = e
  ok = same(expected, got)
  print(f'{name:20s} output_keys={key!r:18}: expected {expected!r}, pipeline'
        f' reported {got!r} {"" if ok else "  <-- WRONG"}')
  bad |= not ok

if bad:
  print('DEFECT: the reported aggregate differs from the aggregate function\'s'
        ' result.')
sys.exit(1 if bad else 0)
