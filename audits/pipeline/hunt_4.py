"""C12 violation: after an error in the aggregation (or in a later stage) the worker threads of a num_threads>0 stage never end.

Property C12: "With error skipping disabled the first error reaches the caller
with the original exception as cause, iteration stops, sinks are closed and
helper threads end."

Scenario 1: stage with num_threads=2 and an aggregate whose update_state raises
for one batch. Scenario 2: stage 's1' with num_threads=2 chained to a stage 's2'
whose function raises. In both cases the error reaches the caller correctly, but
the two "multiplex_pool" worker threads of the threaded stage stay blocked
forever in IteratorQueue.put (the bounded result queue is full and nobody
dequeues any more). They are non-daemon ThreadPoolExecutor threads, so unless
the caller knows to call the iterator's maybe_stop() the interpreter hangs at
exit (this script calls maybe_stop() at the end only to be able to terminate).

Cause: the stop-on-error logic lives only in MultiplexIterator.__next__
(iter_utils.py:402-414), i.e. it only fires for errors raised *inside* the
threaded iterator. _RunnerIterator.__next__ (transform.py:185-205) runs
`self._runner.update_state(...)` outside of it and only handles StopIteration,
and _ChainedRunnerIterator.__next__ (transform.py:495-512) does not stop the
upstream stages when the last stage raises (its maybe_stop() is never called).
"""
import sys
import threading
import time
from absl import logging
logging.set_verbosity(logging.FATAL)
from ml_metrics._src.aggregates import base
from ml_metrics._src.chainables import transform

T = transform.TreeTransform.new


class FailingCount(base.AggregateFn):

  def create_state(self):
    return 0

  def update_state(self, state, x):
    if x == 3:
      raise RuntimeError('cannot aggregate batch 3')
    return state + 1

  def get_result(self, state):
    return state


def boom(x):
  if x == 3:
    raise RuntimeError('cannot process 3')
  return x


def workers():
  return sorted(
      t.name for t in threading.enumerate() if t.name.startswith('multiplex')
  )


def scenario(name, pipeline):
  it = pipeline.make().iterate()
  try:
    for _ in it:
      pass
    print(f'{name}: no error?!')
  except Exception as e:  # pylint: disable=broad-exception-caught
    print(f'{name}: caller got {type(e).__name__} caused by {e.__cause__!r}')
  time.sleep(1.0)
  alive = workers()
  print(f'{name}: worker threads still alive 1s after the error: {alive}')
  it.maybe_stop()  # Clean up so that this script can exit.
  time.sleep(0.3)
  print(f'{name}: after an explicit maybe_stop(): {workers()}')
  return bool(alive)


bad = scenario(
    'agg-error ',
    T(num_threads=2)
    .data_source(list(range(200)))
    .apply(fn=lambda x: x)
    .aggregate(fn=FailingCount(), output_keys='n'),
)
bad |= scenario(
    'next-stage',
    T(name='s1', num_threads=2)
    .data_source(list(range(200)))
    .apply(fn=lambda x: x)
    .chain(T(name='s2').apply(fn=boom)),
)
if bad:
  print('DEFECT: helper threads did not end after the error surfaced.')
sys.exit(1 if bad else 0)
