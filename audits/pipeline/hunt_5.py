"""C08 violation: with num_threads>0 a sink is closed before all records are written, and closed once per thread.

Property C08: "... sinks see every record once and are closed at the end."

Pipeline: data_source(range(6)) -> apply(slow for record 0) -> sink, run with
num_threads=2. Every worker thread builds its own operator chain, hence its own
`Sink.iterate` generator over the SAME sink object, and each generator calls
`sink.close()` in its `finally` as soon as *its* share of the shared input is
exhausted (tree_fns.py:351-360; chains are created per thread in
iter_utils.piter_fn, iter_utils.py:1058-1061, and per shard in
MultiplexIterator.__init__, iter_utils.py:353-356).
The thread that is still processing record 0 then writes to an already closed
sink and closes it a second time. With a real file-like sink this is
"ValueError: I/O operation on closed file" or lost data.
The sleep in the user function only makes the interleaving deterministic.
"""
import sys
import threading
import time
from absl import logging
logging.set_verbosity(logging.FATAL)
from ml_metrics._src.chainables import transform


class RecordingSink:

  def __init__(self):
    self.events = []
    self._lock = threading.Lock()

  def write(self, x):
    with self._lock:
      self.events.append(f'write({x})')

  def close(self):
    with self._lock:
      self.events.append('close')


def slow_for_zero(x):
  if x == 0:
    time.sleep(0.5)
  return x


def run(num_threads):
  sink = RecordingSink()
  p = (
      transform.TreeTransform.new(num_threads=num_threads)
      .data_source(list(range(6)))
      .apply(fn=slow_for_zero)
      .sink(sink)
  )
  out = sorted(p.make().iterate())
  return out, sink.events


bad = False
for n in (0, 2):
  out, events = run(n)
  first_close = events.index('close')
  writes_after_close = [e for e in events[first_close:] if e != 'close']
  n_close = events.count('close')
  print(f'num_threads={n}: outputs={out}')
  print(f'   sink events: {events}')
  print(f'   close() calls: {n_close}, writes after the first close:'
        f' {writes_after_close}')
  bad = bad or n_close != 1 or bool(writes_after_close)
if bad:
  print('DEFECT: the sink was closed before the end / more than once.')
sys.exit(1 if bad else 0)
