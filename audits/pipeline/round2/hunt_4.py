"""C02 (slices equal a brute-force group-by, also for intra-example masks).

Regression of repair a809797 ("row slicing filters a list column without
converting it to an array").  tree.apply_mask now filters a list / tuple input
with `[elem for elem, mask in zip(items, masks) if mask]` whenever the mask is a
bool ndarray.  That is only right for a 1-D (row) mask.  An intra-example mask
produced by a slice_mask_fn is an ndarray with the SHAPE OF THE INPUT (2-D for
a batch of per-example lists): `if mask` is then evaluated on a whole row of
the mask and raises "The truth value of an array with more than one element is
ambiguous".  Before the repair the input went through np.asarray(items)[masks]
and gave the masked elements; the same batch given as an ndarray still works.
"""
import sys

from absl import logging as absl_logging
from ml_metrics._src.aggregates import base
from ml_metrics._src.chainables import transform
from ml_metrics._src.chainables import tree
import numpy as np

absl_logging.set_verbosity(absl_logging.FATAL)
TT = transform.TreeTransform


class Total(base.AggregateFn):

  def create_state(self):
    return 0

  def update_state(self, state, x):
    return state + int(np.sum(np.asarray(x)))

  def get_result(self, state):
    return {'total': state}


def sign_masks(x):
  x = np.asarray(x)
  yield 'pos', x > 0
  yield 'neg', x < 0


pipeline = (
    TT()
    .aggregate(Total(), input_keys='x', output_keys='r')
    .add_slice('x', slice_name='sign', slice_mask_fn=sign_masks)
)


def totals(batches):
  result = pipeline.make()(input_iterator=batches)
  return {
      (k.slice.values[0] if isinstance(k, transform.MetricKey) else 'all'): v[
          'total'
      ]
      for k, v in result.items()
  }


want = {'all': 0, 'pos': 5, 'neg': -5}
as_array = totals([{'x': np.array([[1, -2], [-3, 4]])}])
print('batch given as ndarray      :', as_array)
assert as_array == want
defect = False
try:
  as_list = totals([{'x': [[1, -2], [-3, 4]]}])
  print('batch given as list of lists:', as_list)
  defect = as_list != want
except Exception as e:  # pylint: disable=broad-exception-caught
  print('batch given as list of lists: RAISED', type(e).__name__, '<-',
        repr(e.__cause__))
  defect = True

try:
  direct = tree.apply_mask(
      [[1, -2], [-3, 4]], masks=np.array([[True, False], [False, True]])
  )
  print('tree.apply_mask(list of lists, 2-D bool mask):', direct)
except Exception as e:  # pylint: disable=broad-exception-caught
  print('tree.apply_mask(list of lists, 2-D bool mask): RAISED',
        type(e).__name__, e)
  defect = True

print('DEFECT PRESENT' if defect else 'OK')
sys.exit(1 if defect else 0)
