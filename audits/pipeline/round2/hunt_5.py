"""C02 / C08 (the aggregate equals the aggregate function applied to the
selected columns of the stream it was declared on; invalid combinations are
rejected when the pipeline is built, not silently mis-routed).

TreeTransform.chain() fuses the child into the parent when both have the same
name - which is the case for all unnamed transforms (name ''): _chain_and_fuse
concatenates fns, agg_fns and slicers separately.  If the parent already ends
with an aggregate and the child has operators, the child's operators end up IN
FRONT OF the parent's aggregate: the aggregate silently sees the child's output
instead of the parent's.  Adding the same operator directly
(parent.apply(...)) is rejected with "Aggregation has to be the last node", and
chaining the same two transforms under different names gives the right answer.
"""
import sys

from absl import logging as absl_logging
from ml_metrics._src.aggregates import base
from ml_metrics._src.chainables import transform

absl_logging.set_verbosity(absl_logging.FATAL)
TT = transform.TreeTransform


class Collect(base.AggregateFn):

  def create_state(self):
    return []

  def update_state(self, state, x):
    return state + [x]

  def get_result(self, state):
    return {'seen': state}


def run(name_a, name_b):
  a = TT(name=name_a).apply(lambda x: x + 1).aggregate(
      Collect(), output_keys='a'
  )
  b = TT(name=name_b).apply(lambda x: x * 100)
  it = a.chain(b).make().iterate([1, 2, 3])
  return list(it), it.agg_result


want = ([200, 300, 400], {'a': {'seen': [2, 3, 4]}})
named = run('A', 'B')
print('named   A.chain(B):', named)
assert named == want
try:
  TT().apply(lambda x: x + 1).aggregate(Collect(), output_keys='a').apply(
      lambda x: x * 100
  )
  print('direct apply after aggregate: accepted')
except ValueError as e:
  print('direct apply after aggregate: rejected:', str(e)[:45], '...')

defect = False
try:
  unnamed = run('', '')
  print('unnamed A.chain(B):', unnamed)
  defect = unnamed != want
except ValueError as e:
  print('unnamed A.chain(B): rejected when built:', e)

print('DEFECT PRESENT: the aggregate of A was computed on the output of B'
      if defect else 'OK')
sys.exit(1 if defect else 0)
