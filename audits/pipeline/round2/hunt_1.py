"""C12 (error skipping drops only failing elements).

A stage that has a data source but no operator (data source -> aggregate, or a
named "read" stage that is chained to a processing stage) has no error skipping
layer at all: _RunnerIterator.iter_fn just does `yield from input_iterator`.
With ignore_error=True a skippable (ValueError) data source error at one index
  (a) aborts `data_source(ds).aggregate(fn)` although the same pipeline with a
      no-op select() in front of the aggregate skips the element,
  (b) in a two stage pipeline read -> proc silently loses EVERY later element
      (the downstream stage swallows the error, the upstream generator is dead),
  (c) with num_threads=2 on the read stage the run never terminates: the queue
      re-raises the recorded exception for ever and the downstream
      iter_ignore_error swallows it for ever (busy loop).
SequenceDataSource is resumable after an error, so all three are avoidable.
"""
import os
import sys
import threading

from absl import logging as absl_logging
from ml_metrics._src.aggregates import base
from ml_metrics._src.chainables import io
from ml_metrics._src.chainables import transform
from ml_metrics._src.chainables.tree import Key

absl_logging.set_verbosity(absl_logging.FATAL)
TT = transform.TreeTransform


class FailingSeq:
  """Random access data whose element 3 cannot be read."""

  def __init__(self, n, bad):
    self.n, self.bad = n, set(bad)

  def __len__(self):
    return self.n

  def __getitem__(self, i):
    if isinstance(i, slice):
      return [self[j] for j in range(*i.indices(self.n))]
    if i in self.bad:
      raise ValueError(f'cannot read element {i}')
    return i


class Collect(base.AggregateFn):

  def create_state(self):
    return []

  def update_state(self, state, x):
    return state + [x]

  def get_result(self, state):
    return {'seen': sorted(state)}


def attempt(fn):
  try:
    return fn()
  except Exception as e:  # pylint: disable=broad-exception-caught
    return f'RAISED {type(e).__name__}: {e}'


expected = [0, 1, 2, 4, 5, 6, 7]
want_agg = {'seen': expected}
defects = []

ds = io.SequenceDataSource(FailingSeq(8, [3]))
control = attempt(
    lambda: TT().data_source(ds).select(Key.SELF).aggregate(Collect())
    .make()(ignore_error=True)
)
print('control  ds -> select(SELF) -> aggregate :', control)
assert control == want_agg, 'control failed: the source error is not skippable?'

a = attempt(
    lambda: TT().data_source(ds).aggregate(Collect()).make()(ignore_error=True)
)
print('(a) ds -> aggregate, ignore_error=True    :', a)
if a != want_agg:
  defects.append('a')

p = TT(name='read').data_source(ds).chain(TT(name='proc').apply(lambda x: x))
b = attempt(lambda: list(p.make().iterate(ignore_error=True)))
print('(b) read -> proc, ignore_error=True       :', b, ' expected', expected)
if b != expected:
  defects.append('b')

result = {}


def threaded():
  p2 = TT(name='read', num_threads=2).data_source(ds).chain(
      TT(name='proc').apply(lambda x: x)
  )
  result['c'] = attempt(lambda: sorted(p2.make().iterate(ignore_error=True)))


t = threading.Thread(target=threaded, daemon=True)
t.start()
t.join(10)
if t.is_alive():
  print('(c) read(num_threads=2) -> proc           : still running after 10s'
        ' (busy loop)')
  defects.append('c')
else:
  print('(c) read(num_threads=2) -> proc           :', result['c'])
  if result['c'] != expected:
    defects.append('c')

print('DEFECT PRESENT' if defects else 'OK', defects)
sys.stdout.flush()
os._exit(1 if defects else 0)
