"""C08 (operators route data exactly as a reference interpreter; key shape
"literal").

A Key.Literal input is a constant that is handed to the function as it is.
With fn_batch_size set, TreeFn._iterate sends ALL selected inputs, the literal
included, through iter_utils.rebatched_args as if they were batch columns:
  * a sequence literal is concatenated / re-sliced together with the data
    columns, the function silently receives a different constant
    ([2, 5] becomes [2, 5, 2, 5]),
  * a scalar literal makes the pipeline fail with
    TypeError('Non sequence type: <class int>') although the same pipeline
    without fn_batch_size works.
(The same mistake for masks of a sliced aggregate was repaired in
TreeFn._apply_masks, rebatching was left out.)
"""
import sys

from absl import logging as absl_logging
from ml_metrics._src.chainables import transform
from ml_metrics._src.chainables.tree import Key

absl_logging.set_verbosity(absl_logging.FATAL)
TT = transform.TreeTransform

records = [{'x': [1, 2]}, {'x': [3, 4]}, {'x': [5, 6]}]
thresholds = [2, 5]
defect = False


def run(fn_batch_size):
  seen = []

  def fn(x, th):
    seen.append(list(th))
    # The number of thresholds every value exceeds.
    return [sum(v > t for t in th) for v in x]

  kwargs = dict(fn_batch_size=4, batch_size=2) if fn_batch_size else {}
  p = TT().apply(fn, input_keys=('x', Key.Literal(thresholds)), **kwargs)
  out = list(p.make().iterate(records))
  return out, seen


out, seen = run(fn_batch_size=False)
print('no rebatching : outputs', out, ' literal seen by fn', seen)
out_rb, seen_rb = run(fn_batch_size=True)
print('fn_batch_size : outputs', out_rb, ' literal seen by fn', seen_rb)
if any(th != thresholds for th in seen_rb) or out_rb != out:
  print('  -> the literal constant was rebatched like a data column, the'
        ' outputs differ from the un-rebatched run')
  defect = True

try:
  p = TT().apply(
      lambda x, t: [v > t for v in x],
      input_keys=('x', Key.Literal(2)),
      fn_batch_size=4,
      batch_size=2,
  )
  out = list(p.make().iterate(records))
  print('scalar literal + fn_batch_size :', out)
  if out != [[False, False], [True, True], [True, True]]:
    defect = True
except Exception as e:  # pylint: disable=broad-exception-caught
  print('scalar literal + fn_batch_size : RAISED', type(e).__name__, e)
  defect = True

print('DEFECT PRESENT' if defect else 'OK')
sys.exit(1 if defect else 0)
