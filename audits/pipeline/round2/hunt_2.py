"""C12 (elements after a failing one are never silently lost / the first
non-skipped error surfaces).

Two aggregating stages A -> B.  The aggregate of stage A fails on one batch.
In a single stage pipeline this error always reaches the caller, also with
ignore_error=True (an aggregate update is not a skippable element).  In the two
stage pipeline the error raised by A's _RunnerIterator.__next__ (a ValueError
"Cannot call with input_keys=...") travels into the operators of stage B, whose
iter_ignore_error layer swallows it as if it were a failing element; A has
meanwhile replaced its iterator by iter(()) (repair fc8e610), so B sees a
normal end of stream.  Outcome: no error at all, every element after the
failing batch is silently lost and BOTH aggregates are reported for the
truncated stream.
"""
import sys

from absl import logging as absl_logging
from ml_metrics._src.aggregates import base
from ml_metrics._src.chainables import transform

absl_logging.set_verbosity(absl_logging.FATAL)
TT = transform.TreeTransform


class Collect(base.AggregateFn):

  def __init__(self, bad=()):
    self.bad = bad

  def create_state(self):
    return []

  def update_state(self, state, x):
    if x in self.bad:
      raise RuntimeError(f'aggregate cannot digest {x}')
    return state + [x]

  def get_result(self, state):
    return sorted(state)


def attempt(fn):
  try:
    return fn()
  except Exception as e:  # pylint: disable=broad-exception-caught
    return f'RAISED {type(e).__name__} (cause {e.__cause__!r})'


def stage_a():
  return (
      TT(name='A')
      .apply(lambda x: x)
      .aggregate(Collect(bad=(3,)), output_keys='a')
  )


stage_b = TT(name='B').apply(lambda x: x).aggregate(Collect(), output_keys='b')

single = attempt(
    lambda: stage_a().make()(input_iterator=range(8), ignore_error=True)
)
print('single stage A, ignore_error=True :', single)
two = attempt(
    lambda: stage_a().chain(stage_b)
    .make()(input_iterator=range(8), ignore_error=True)
)
print('A -> B,         ignore_error=True :', two)
strict = attempt(
    lambda: stage_a().chain(stage_b)
    .make()(input_iterator=range(8), ignore_error=False)
)
print('A -> B,         ignore_error=False:', strict)

it = stage_a().chain(stage_b).make().iterate(range(8), ignore_error=True)
delivered = attempt(lambda: list(it))
print('A -> B iterate(), delivered       :', delivered)

# Acceptable: the error surfaces (as in the single stage run), or only the
# failing batch is dropped ([0, 1, 2, 4, 5, 6, 7] downstream).
ok_results = ({'a': [0, 1, 2, 4, 5, 6, 7], 'b': [0, 1, 2, 4, 5, 6, 7]},
              {'a': [0, 1, 2, 4, 5, 6, 7], 'b': list(range(8))})
silently_truncated = (
    not isinstance(two, str) and two not in ok_results
) or delivered == [0, 1, 2]
if silently_truncated:
  print('DEFECT PRESENT: the aggregation error of stage A was swallowed by'
        ' stage B and elements 4..7 were silently lost')
  sys.exit(1)
print('OK')
sys.exit(0)
