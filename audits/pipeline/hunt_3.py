"""C12 violation: with ignore_error=True a skippable data-source error is fatal when the first operator is assign / filter / sink.

Property C12: "With error skipping enabled, every element whose processing does
not raise a skippable error is delivered exactly once, in order and still
aligned with its own inputs, regardless of ... operator kind", quantified over
"failing elements (in the data source or in any operator), all operator kinds".

The source fails with a (skippable) ValueError for row 3 only. When the first
operator is apply or select the row is skipped and the other 7 rows are
delivered. When the first operator is assign, filter or sink the iteration
aborts with an unrelated `IndexError('No element left.')`: rows 4..7 are lost
and the original error is not even the cause.

Cause: iter_utils.processed_with_inputs (iter_utils.py:1249-1268) zips the
outputs with `_TeeIterator.tee()`. The source error is raised inside
_TeeIterator.__next__ *before* anything is appended to the tee buffer, but
iter_ignore_error still turns it into a `_SKIP` output marker; zip then asks the
tee for the matching input, the buffer is empty and tee() raises IndexError.
"""
import sys
from absl import logging
logging.set_verbosity(logging.FATAL)
from ml_metrics._src.chainables import io
from ml_metrics._src.chainables import transform


class Rows:

  def __len__(self):
    return 8

  def __getitem__(self, i):
    if isinstance(i, slice):
      return [self[j] for j in range(*i.indices(len(self)))]
    if i == 3:
      raise ValueError(f'corrupt row {i}')
    return {'a': i}


class ListSink:

  def __init__(self):
    self.rows, self.closed = [], 0

  def write(self, a):
    self.rows.append(a)

  def close(self):
    self.closed += 1


def source():
  return transform.TreeTransform.new().data_source(
      io.SequenceDataSource(Rows())
  )


pipelines = {
    'apply': source().apply(fn=lambda a: a, input_keys='a', output_keys='a'),
    'select': source().select('a'),
    'assign': source().assign('b', fn=lambda a: a * 10, input_keys='a'),
    'filter': source().filter(lambda a: True, input_keys='a'),
    'sink': source().sink(ListSink(), input_keys='a'),
}
expected = [i for i in range(8) if i != 3]
print('expected rows:', expected)
bad = False
for name, p in pipelines.items():
  got = []
  try:
    for r in p.make().iterate(ignore_error=True):
      got.append(r['a'])
    outcome = 'ok'
  except Exception as e:  # pylint: disable=broad-exception-caught
    outcome = f'RAISED {type(e).__name__}({e}) cause={e.__cause__!r}'
  print(f'{name:7s}: delivered {got} -> {outcome}')
  bad = bad or got != expected
if bad:
  print('DEFECT: a skippable source error aborted the run (rows 4..7 lost).')
sys.exit(1 if bad else 0)
