"""C12 violation: when an operator AFTER a sink fails (error skipping disabled) the sink is not closed when the error reaches the caller.

Property C12: "With error skipping disabled the first error reaches the caller
with the original exception as cause, iteration stops, sinks are closed and
helper threads end."

Pipeline: data_source -> sink -> apply(fn that raises for record 2).
Sink.iterate (tree_fns.py:351-360) closes the sink in the `finally` of a
generator. An error raised DOWNSTREAM of the sink never passes through that
generator, so `close()` only runs when the suspended generator happens to be
garbage collected:
 * num_threads=0: the generator is kept alive by the traceback of the exception,
   i.e. the sink is still open while the caller handles the error (and stays
   open for as long as the exception object is kept, e.g. for reporting);
 * num_threads=2: the generators are owned by the iterator's worker queue; the
   sink stays open after the error has been handled, for as long as the
   (already failed) iterator object is referenced and, because reference
   cycles are involved, even until the next cyclic garbage collection.
Buffered sinks (files, record writers) are thus left unflushed after a failure.
"""
import gc
import sys
import threading
from absl import logging
logging.set_verbosity(logging.FATAL)
from ml_metrics._src.chainables import transform


class RecordingSink:

  def __init__(self):
    self.events = []
    self._lock = threading.Lock()

  def write(self, x):
    with self._lock:
      self.events.append(f'write({x})')

  def close(self):
    with self._lock:
      self.events.append('close')


def boom(x):
  if x == 2:
    raise RuntimeError('cannot process 2')
  return x


bad = False
for num_threads in (0, 2):
  sink = RecordingSink()
  p = (
      transform.TreeTransform.new(num_threads=num_threads)
      .data_source(list(range(6)))
      .sink(sink)
      .apply(fn=boom)
  )
  it = p.make().iterate()
  closed_when_caught = None
  try:
    for _ in it:
      pass
  except ValueError as e:
    closed_when_caught = 'close' in sink.events
    print(f'num_threads={num_threads}: caller got {type(e).__name__} caused by'
          f' {e.__cause__!r}')
  closed_after_handling = 'close' in sink.events
  print(f'   sink closed when the error reached the caller : {closed_when_caught}')
  print(f'   sink closed after the except block            : {closed_after_handling}')
  bad |= not closed_when_caught
  del it
  print(f'   sink closed after dropping the iterator       :'
        f' {"close" in sink.events}')
  gc.collect()
  print(f'   sink closed after an explicit gc.collect()    :'
        f' {"close" in sink.events} (close calls: {sink.events.count("close")})')
if bad:
  print('DEFECT: the sink is still open when the error surfaces.')
sys.exit(1 if bad else 0)
