"""C02 violation: calling an aggregating pipeline on an empty stream raises instead of reporting the aggregate of zero batches.

Property C02: "The aggregate result a pipeline reports for a stream equals
applying the aggregate function directly to ... all batches", quantified over
"all batched input streams including empty streams".

For an empty stream the brute-force result is get_result(create_state()) (here
a count of 0 under the key 'n'). `runner.iterate(...)` handles that case and
returns it in its AggregateResult, but the documented call form
`runner(input_iterator=...)` / `runner()` with an empty data source raises
"ValueError: last() was called on an empty iterable".

Cause: ChainedRunner.__call__ (transform.py:680-688) does
`result = mit.last(iter_result)` without a default before looking at
`iter_result.agg_result`.
"""
import sys
from absl import logging
logging.set_verbosity(logging.FATAL)
from ml_metrics._src.aggregates import base
from ml_metrics._src.chainables import transform

T = transform.TreeTransform.new


class Count(base.AggregateFn):

  def create_state(self):
    return 0

  def update_state(self, state, x):
    return state + len(x)

  def get_result(self, state):
    return state


agg = Count()
expected = {'n': agg.get_result(agg.create_state())}
print('brute force over zero batches:', expected)
it = T().aggregate(fn=Count(), output_keys='n').make().iterate([])
try:
  next(it)
except StopIteration as e:
  print('iterate([]) returned         :', e.value.agg_result)
bad = False
for name, call in {
    'runner(input_iterator=[])': lambda: T()
    .aggregate(fn=Count(), output_keys='n')
    .make()(input_iterator=[]),
    'data_source([]) ... runner()': lambda: T()
    .data_source([])
    .aggregate(fn=Count(), output_keys='n')
    .make()(),
}.items():
  try:
    got = call()
  except Exception as e:  # pylint: disable=broad-exception-caught
    got = f'RAISED {type(e).__name__}: {e}'
  print(f'{name:29s}: {got}')
  bad |= got != expected
if bad:
  print('DEFECT: the empty stream has no reported aggregate.')
sys.exit(1 if bad else 0)
