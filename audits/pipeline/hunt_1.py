"""C12 violation: assign(..., batch_size=N) + ignore_error=True silently loses every element after a failing one.

Property C12: "With error skipping enabled, every element whose processing does
not raise a skippable error is delivered exactly once, in order and still
aligned with its own inputs, regardless of batching options, operator kind or
threading; elements after a failing one are never silently lost."

Here exactly one element (a == [2]) makes the assigned function raise. Without
re-batching the pipeline correctly drops only that element. With the (legal,
shape preserving) option batch_size=1 the stream silently ENDS at the failing
element: elements 3..7 are never delivered and no error is raised.

Cause: Assign.iterate -> iter_utils.processed_with_inputs(self._iterate, ...)
calls TreeFn._iterate WITHOUT ignore_error, so the exception travels through the
`rebatched_args` *generator* (tree_fns.py:249-254). A generator that raised is
finished, so when iter_ignore_error (iter_utils.py:64-87) swallows the error and
calls next() again it gets StopIteration and ends the stream.
"""
import sys
from absl import logging
logging.set_verbosity(logging.FATAL)
from ml_metrics._src.chainables import transform


def fn(a):
  if a == [2]:
    raise ValueError('cannot process 2')
  return [v * 10 for v in a]


def run(**kwargs):
  data = [{'a': [i]} for i in range(8)]
  p = transform.TreeTransform.new().assign('b', fn=fn, input_keys='a', **kwargs)
  return list(p.make().iterate(data, ignore_error=True))


expected = [{'a': [i], 'b': [i * 10]} for i in range(8) if i != 2]
plain = run()
rebatched = run(batch_size=1)
rebatched_fn = run(fn_batch_size=1, batch_size=1)
print('expected                     :', [r['a'][0] for r in expected])
print('assign, no rebatching        :', [r['a'][0] for r in plain])
print('assign, batch_size=1         :', [r['a'][0] for r in rebatched])
print('assign, fn_batch_size=1, bs=1:', [r['a'][0] for r in rebatched_fn])
bad = plain != expected or rebatched != expected or rebatched_fn != expected
if bad:
  print('DEFECT: elements after the failing one were silently lost.')
sys.exit(1 if bad else 0)
