"""C02 violation: row slicing converts list columns with np.asarray: ragged columns crash, mixed-type columns are silently altered.

Property C02: "for every slice key it reports exactly the aggregate over the
rows ... belonging to that slice", for all batched input streams.

The aggregate below receives a column of per-example label lists (ragged, as in
multi-label / retrieval data) or a column mixing str and int ids. Un-sliced, the
pipeline passes the Python lists through untouched. As soon as a slicer is
added, tree.apply_mask selects the rows with `np.asarray(items)[masks]`
(tree.py:144-149):
 * the ragged column makes np.asarray raise "inhomogeneous shape", so the whole
   run fails although every row belongs to a well defined slice;
 * the mixed column is coerced to a '<U..' string array, so the slice aggregates
   the string '7' where the row holds the int 7 (an invented value).
"""
import sys
from absl import logging
logging.set_verbosity(logging.FATAL)
from ml_metrics._src.aggregates import base
from ml_metrics._src.chainables import transform
from ml_metrics._src.chainables import tree_fns

T = transform.TreeTransform.new
MetricKey, SliceKey = transform.MetricKey, tree_fns.SliceKey


class CollectRows(base.AggregateFn):
  """Collects the rows it has seen (as plain python objects)."""

  def create_state(self):
    return []

  def update_state(self, state, column):
    for row in column:
      row = row.tolist() if hasattr(row, 'tolist') else row
      state.append(row)
    return state

  def get_result(self, state):
    return state


def brute_force(batches, column):
  expected = {'rows': []}
  for batch in batches:
    for row, f in zip(batch[column], batch['f']):
      expected['rows'].append(row)
      key = MetricKey('rows', SliceKey(('f',), (f,)))
      expected.setdefault(key, []).append(row)
  return expected


def run(batches, column, sliced):
  p = T().aggregate(fn=CollectRows(), input_keys=column, output_keys='rows')
  if sliced:
    p = p.add_slice('f')
  try:
    return p.make()(input_iterator=iter(batches))
  except Exception as e:  # pylint: disable=broad-exception-caught
    return f'RAISED {type(e).__name__} cause={e.__cause__!r}'


bad = False
ragged = [{'labels': [[1, 2], [3], [4, 5, 6]], 'f': ['a', 'b', 'a']}]
mixed = [{'ids': ['u1', 7, 'u3'], 'f': ['a', 'b', 'a']}]
for name, batches, column in (
    ('ragged', ragged, 'labels'),
    ('mixed ', mixed, 'ids'),
):
  expected = brute_force(batches, column)
  print(f'[{name}] un-sliced pipeline:', run(batches, column, sliced=False))
  got = run(batches, column, sliced=True)
  print(f'[{name}] sliced pipeline   :', got)
  print(f'[{name}] brute force       :', expected)
  bad |= got != expected
if bad:
  print('DEFECT: slicing crashed on / altered a list column.')
sys.exit(1 if bad else 0)
