"""C04 violation: IteratorQueue.get_nowait() (the non-blocking consumer API) loses the last element.

Property C04 says every produced element is received by exactly one consumer, whether the
consumers drain "one at a time or in batches, blocking or not", and that once all producers
finished every consumer terminates with end-of-stream carrying the producers' return values.

get_nowait() is the public, documented non-blocking dequeue ("Gets an element from the queue,
raises Empty immediately if empty").  When it dequeues the LAST element of a finished stream, its
pre-emptive exhaustion check calls _set_exhausted(), which does
`self._dequeue_lock.notify_all()` - but get_nowait() itself does not hold _dequeue_lock (only
get() and get_batch() take it before calling get_nowait()).  threading raises
"RuntimeError: cannot notify on un-acquired lock" after the element has already been removed
from the underlying queue: the element is dropped and the non-blocking consumer sees a
RuntimeError instead of the element followed by StopIteration(*returned).  The same happens for a
polling consumer racing with live producers as soon as it happens to take the final element.
"""
import sys
from absl import logging
logging.set_verbosity(logging.FATAL)
from ml_metrics._src.utils import iter_utils


def gen():
  yield from [1, 2, 3]
  return 'ret'


def drain_nowait(q):
  out, end = [], None
  for _ in range(10):
    try:
      out.append(q.get_nowait())
    except StopIteration as e:
      end = ('StopIteration', e.args)
      break
    except Exception as e:  # pylint: disable=broad-exception-caught
      end = (type(e).__name__, str(e))
      break
  return out, end


q = iter_utils.IteratorQueue(0, max_enqueuer=1)
q.enqueue_from_iterator(gen())
out, end = drain_nowait(q)
print('non-blocking consumer: received', out, 'end', end)
bad = out != [1, 2, 3] or end != ('StopIteration', ('ret',))
rest, end2 = drain_nowait(q)
print('a second drain       : received', rest, 'end', end2)
if bad:
  print('DEFECT PRESENT: element 3 was dequeued and dropped, consumer got', end[0])
else:
  print('ok')
sys.exit(1 if bad else 0)
