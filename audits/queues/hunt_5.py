"""C04/C05 violation: get_batch(n, block=True) on a queue with a timeout throws away the elements
it already dequeued when the timeout fires.

C05: "with a timeout configured a starved get or put raises a timeout error instead of blocking";
C04: "every produced element is received by exactly one consumer ... (one at a time or in
batches, blocking or not)".

get_batch(max_batch_size, block=True) moves elements out of the queue into a local `result` list
and then waits for more.  If the producer is slower than `timeout`, `_dequeue_lock.wait()` returns
False and get_batch raises TimeoutError - the local `result` list is discarded.  A timeout is a
transient, recoverable condition (the producer is alive and the stream continues), yet the
elements taken so far are received by nobody: the consumer that retries gets only the later
elements and then a normal end-of-stream.  (iter_utils.py get_batch, the
`raise TimeoutError(...)` at ~line 665 with a non-empty `result`.)  The non-blocking flavour
(block=False) returns the partial batch instead, so only the blocking flavour loses data.
"""
import sys
import threading
import time
from absl import logging
logging.set_verbosity(logging.FATAL)
from ml_metrics._src.utils import iter_utils


def slow_source():
  yield 1
  yield 2
  time.sleep(0.6)  # slower than the consumer's timeout, but perfectly alive.
  yield 3
  return 'ret'


q = iter_utils.IteratorQueue(0, timeout=0.2, max_enqueuer=1, name='q')
producer = threading.Thread(target=q.enqueue_from_iterator, args=(slow_source(),))
producer.start()
time.sleep(0.1)

received, timeouts, end = [], 0, None
while True:
  try:
    received.extend(q.get_batch(3, block=True))
  except TimeoutError:
    timeouts += 1  # starved: retry, the stream has not ended.
  except StopIteration as e:
    end = e.args
    break
producer.join()
print(f'produced [1, 2, 3]; consumer saw {timeouts} timeout(s), received {received}, '
      f'end-of-stream returned={end}')
bad = sorted(received) != [1, 2, 3]
if bad:
  print('DEFECT PRESENT: elements dequeued before the TimeoutError were dropped:',
        sorted(set([1, 2, 3]) - set(received)))
else:
  print('ok')
sys.exit(1 if bad else 0)
