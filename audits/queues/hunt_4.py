"""C13 violation: piter() with several input iterators never releases its input threads when the
stream fails or is stopped early.

Property C13: "when the stream is exhausted, fails, or is stopped early, all helper threads finish
and the pool is shut down."  (C05 also: after a failure "all other producers stop and return"; "a
stop request unblocks every blocked producer".)

piter(iterator_fn, input_iterators=[a, b, c], max_parallism=p) builds two stages:
input iterators -> bounded intermediate IteratorQueue (buffer = max_parallism) -> p workers
running iterator_fn -> result IteratorQueue (the only object handed to the caller).
  * If iterator_fn raises, the result queue records the exception and the consumer sees it, the
    workers return - but nobody stops the intermediate queue.  Its enqueuer threads stay blocked
    forever in IteratorQueue.put() on the full intermediate queue.
  * If the consumer stops the stream early (DequeueIterator.maybe_stop() /
    IteratorQueue.maybe_stop() on the returned queue) the same happens.
The stuck threads are non-daemon ThreadPoolExecutor threads, so ThreadPoolExecutor.shutdown()
and interpreter exit block forever as well.  Cause: piter() (iter_utils.py ~1094-1118) creates
the intermediate queue but never wires result-queue failure/stop back to it.
"""
import os
import sys
import threading
import time
import traceback
from absl import logging
logging.set_verbosity(logging.FATAL)
from ml_metrics._src.utils import iter_utils


def source(i):
  for j in range(1000):
    yield (i, j)


def failing_fn(it):
  for n, x in enumerate(it):
    if n == 3:
      raise ValueError('boom')
    yield x


def passthrough_fn(it):
  yield from it


def stuck_piter_threads():
  """Names of live piter pool threads that are blocked inside IteratorQueue.put."""
  frames = sys._current_frames()
  stuck = {}
  for th in threading.enumerate():
    if not th.name.startswith('piter'):
      continue
    stack = traceback.extract_stack(frames[th.ident])
    if any(f.name == 'put' and f.filename.endswith('iter_utils.py') for f in stack):
      stuck[th.ident] = th.name
  return stuck


def scenario(kind):
  before = stuck_piter_threads()
  q = iter_utils.piter(
      failing_fn if kind == 'fail' else passthrough_fn,
      input_iterators=[source(i) for i in range(3)],
      max_parallism=2,
  )
  it = iter(q)
  got, outcome = [], None
  try:
    if kind == 'fail':
      for x in it:
        got.append(x)
      outcome = 'clean end'
    else:
      for _ in range(5):
        got.append(next(it))
      it.maybe_stop()  # early stop requested by the consumer.
      for x in it:  # drains what is left, terminates with StopIteration.
        got.append(x)
      outcome = 'stopped cleanly'
  except ValueError as e:
    outcome = f'consumer observed {e!r}'
  time.sleep(1.5)  # give every helper thread ample time to notice and return.
  stuck = sorted(
      name for ident, name in stuck_piter_threads().items() if ident not in before
  )
  print(f'[{kind}] {outcome}; received {len(got)} elements; '
        f'{len(stuck)} helper threads still blocked in IteratorQueue.put: {stuck}')
  return bool(stuck)


bad_fail = scenario('fail')
bad_stop = scenario('stop')
bad = bad_fail or bad_stop
print('DEFECT PRESENT: input enqueuer threads are leaked (blocked forever)' if bad else 'ok')
sys.stdout.flush()
os._exit(1 if bad else 0)  # a normal exit would hang joining the leaked pool threads.
