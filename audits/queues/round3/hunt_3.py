"""C04 (every element delivered, end-of-stream only once ALL producers finished).

AsyncIteratorQueue with several async producers ends the stream as soon as the
producers that happen to be registered have finished:

 * async_enqueue_from_iterator() accepts an awaitable that resolves to the
   async iterable (orchestrate passes worker.async_iter(...) coroutines), but it
   registers itself (_start_enqueue) only AFTER `await iterator`.  While it
   waits, the queue does not know about this producer.
 * The remedy IteratorQueue has for late starting enqueuers, the declared
   number of producers `max_enqueuer` (used by piter_multiplex), cannot be
   given to an AsyncIteratorQueue: its constructor does not take / forward it.

So with two producers started together, if the first one drains its source
before the second one's awaitable resolved, enqueue_done flips to True
(start == stop == max == 1), get_nowait() marks the queue exhausted (sticky) and
every consumer gets a clean StopAsyncIteration.  The second producer then
registers, "re-opens" the queue and enqueues elements that no consumer ever
receives; its return value is missing from the end-of-stream as well.  With a
bounded queue the late producer additionally blocks in put() for ever.
"""
import asyncio
import logging
import sys

from absl import logging as absl_logging

absl_logging.set_verbosity(absl_logging.FATAL)
logging.disable(logging.CRITICAL)

from ml_metrics._src.utils import iter_utils  # pylint: disable=g-import-not-at-top


class Source:
  """An async iterator with a return value (StopAsyncIteration(value))."""

  def __init__(self, pid, n):
    self.pid, self.n, self.i = pid, n, 0

  def __aiter__(self):
    return self

  async def __anext__(self):
    await asyncio.sleep(0)
    if self.i == self.n:
      raise StopAsyncIteration(f'ret{self.pid}')
    self.i += 1
    return (self.pid, self.i - 1)


async def resolves_later(source, delay):
  """E.g. a remote iterator that first has to be constructed on a worker."""
  await asyncio.sleep(delay)
  return source


async def consume(q):
  received = []
  it = q.async_dequeue_as_iterator()
  try:
    while True:
      received.append(await it.__anext__())
  except StopAsyncIteration as e:
    return received, e.args


async def scenario(delay):
  q = iter_utils.AsyncIteratorQueue(name='results')
  producers = [
      q.async_enqueue_from_iterator(Source(0, 3)),
      q.async_enqueue_from_iterator(resolves_later(Source(1, 3), delay)),
  ]
  consumer = asyncio.ensure_future(consume(q))
  await asyncio.gather(*producers)
  received, returned = await asyncio.wait_for(consumer, 10)
  left = q._queue.qsize()  # pylint: disable=protected-access
  return received, returned, left


def main():
  expected = sorted([(0, 0), (0, 1), (0, 2), (1, 0), (1, 1), (1, 2)])
  bad = False
  for delay in (0.0, 0.5):
    received, returned, left = asyncio.run(scenario(delay))
    ok = sorted(received) == expected and sorted(returned) == ['ret0', 'ret1']
    print(
        f'second producer resolves after {delay}s: consumer received'
        f' {sorted(received)}, end-of-stream returns {returned}, elements left'
        f' in the queue after all producers returned: {left} ->'
        f' {"ok" if ok else "DEFECT"}'
    )
    bad |= not ok
  if bad:
    print(
        'DEFECT: clean end-of-stream before all producers finished; the late'
        ' producer\'s elements and return value never reach a consumer.'
    )
  return 1 if bad else 0


if __name__ == '__main__':
  sys.exit(main())
