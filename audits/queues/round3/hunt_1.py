"""C04 (exactly-once delivery / clean end-of-stream): IteratorQueue.get_nowait().

get_nowait() is a public method ("Gets an element from the queue, raises Empty
immediately if empty").  When the call is the one that notices the end of the
stream (it pops the last element after the producers finished, or it polls the
drained queue for the first time) it calls _set_exhausted(), which does
self._dequeue_lock.notify_all().  get() / get_batch() hold that condition when
they call get_nowait(); a direct caller does not, so notify_all() raises
RuntimeError('cannot notify on un-acquired lock').  The element that was
already popped from the buffer is lost (the RuntimeError replaces the return
value), _exhausted is already True, so the next call reports a clean
StopIteration: a non-blocking consumer receives N-1 of N elements and an
internal locking error instead of the last element.
"""
import logging
import queue
import sys

from absl import logging as absl_logging

absl_logging.set_verbosity(absl_logging.FATAL)
logging.disable(logging.CRITICAL)

from ml_metrics._src.utils import iter_utils  # pylint: disable=g-import-not-at-top


def gen(n):
  yield from range(n)
  return 'done'


def drain_nowait(q):
  received, errors, end = [], [], None
  for _ in range(100):
    try:
      received.append(q.get_nowait())
    except StopIteration as e:
      end = e
      break
    except queue.Empty:
      continue
    except Exception as e:  # pylint: disable=broad-exception-caught
      errors.append(e)
  return received, errors, end


def main():
  bad = False
  # 1. the producer finished, a consumer polls with get_nowait().
  q = iter_utils.IteratorQueue()
  q.enqueue_from_iterator(gen(3))
  received, errors, end = drain_nowait(q)
  print(f'case 1: received={received} errors={errors!r} end={end!r}')
  if received != [0, 1, 2] or errors:
    print('  DEFECT: expected [0, 1, 2] then StopIteration("done"), no error')
    bad = True

  # 2. same stream through get(): the reference behaviour.
  q = iter_utils.IteratorQueue()
  q.enqueue_from_iterator(gen(3))
  ref = []
  try:
    while True:
      ref.append(q.get())
  except StopIteration as e:
    print(f'case 2 (reference, get()): received={ref} end={e!r}')

  # 3. an empty finished stream: the first poll must be the end of the stream.
  q = iter_utils.IteratorQueue()
  q.enqueue_from_iterator(gen(0))
  try:
    q.get_nowait()
    print('case 3: returned a value?!')
    bad = True
  except StopIteration as e:
    print(f'case 3: clean end {e!r}')
  except Exception as e:  # pylint: disable=broad-exception-caught
    print(f'case 3: first poll of a finished empty stream raised {e!r}')
    print('  DEFECT: expected StopIteration("done")')
    bad = True
  return 1 if bad else 0


if __name__ == '__main__':
  sys.exit(main())
