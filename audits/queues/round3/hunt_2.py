"""C04 (no producer / consumer is left blocked forever): the non-blocking ops.

put() / get() / get_batch() hand-shake through two condition variables: a
blocked put() sleeps on _enqueue_lock until a dequeue notifies it, a blocked
get() sleeps on _dequeue_lock until an enqueue notifies it.  The public
non-blocking operations change the buffer without any notification:

 A. get_nowait() frees a slot of a bounded queue but never notifies
    _enqueue_lock: a producer blocked in put() / enqueue_from_iterator() on the
    full queue sleeps forever although the buffer is empty, a consumer polling
    with get_nowait() receives the first `capacity` elements and then only
    queue.Empty (no timeout configured -> indefinite; with a timeout the
    producer fails the whole stream with 'Enqueue timeout' although the consumer
    is draining).
 B. put_nowait() adds an element but never notifies _dequeue_lock: a consumer
    blocked in get() / get_batch() / iteration keeps sleeping although the
    buffer holds an element.

The blocking twins (get(), put()) used in the same situations are shown as the
reference behaviour.
"""
import logging
import queue
import sys
import threading
import time

from absl import logging as absl_logging

absl_logging.set_verbosity(absl_logging.FATAL)
logging.disable(logging.CRITICAL)

from ml_metrics._src.utils import iter_utils  # pylint: disable=g-import-not-at-top

WAIT = 2.0


def case_a(poll):
  """Producer blocked on a full queue, consumer takes elements one by one."""
  q = iter_utils.IteratorQueue(1, name='bounded')
  producer = threading.Thread(
      target=q.enqueue_from_iterator, args=(range(1000, 1004),), daemon=True
  )
  producer.start()
  received = []
  deadline = time.time() + WAIT
  while time.time() < deadline and len(received) < 3:
    try:
      received.append(q.get_nowait() if poll else q.get())
    except queue.Empty:
      time.sleep(0.01)
  buffered = q._queue.qsize()  # pylint: disable=protected-access
  blocked = producer.is_alive()
  q.maybe_stop()
  producer.join(2)
  return received, buffered, blocked


def case_b(nowait):
  """Consumer blocked on an empty queue, producer adds one element."""
  q = iter_utils.IteratorQueue(name='unbounded')
  got = []
  consumer = threading.Thread(target=lambda: got.append(q.get()), daemon=True)
  consumer.start()
  time.sleep(0.3)  # the consumer now sleeps in get().
  if nowait:
    q.put_nowait('x')
  else:
    q.put('x')
  consumer.join(WAIT)
  blocked = consumer.is_alive()
  buffered = q._queue.qsize()  # pylint: disable=protected-access
  q.maybe_stop()
  consumer.join(2)
  return list(got) if not blocked else [], buffered, blocked


def main():
  bad = False
  received, buffered, blocked = case_a(poll=False)
  print(f'A reference, get():   received={received}')
  received, buffered, blocked = case_a(poll=True)
  print(
      f'A get_nowait() polling for {WAIT}s: received={received},'
      f' buffer holds {buffered} of 1, producer still blocked in put():'
      f' {blocked}'
  )
  if len(received) < 3:
    print('  DEFECT: the producer is never woken, the stream stalls for ever')
    bad = True

  got, buffered, blocked = case_b(nowait=False)
  print(f'B reference, put():   consumer received={got}')
  got, buffered, blocked = case_b(nowait=True)
  print(
      f'B put_nowait(): consumer received={got} after {WAIT}s, buffer holds'
      f' {buffered} element(s), consumer still blocked in get(): {blocked}'
  )
  if blocked:
    print('  DEFECT: the consumer is never woken although an element is queued')
    bad = True
  return 1 if bad else 0


if __name__ == '__main__':
  sys.exit(main())
