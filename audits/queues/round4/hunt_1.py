# Property C05 (and C04 liveness): "with a timeout configured a starved get or
# put raises a timeout error instead of blocking" - i.e. only a STARVED put may
# time out - and "no interleaving leaves a producer blocked".
#
# IteratorQueue.get_batch() (the call behind every `for x in queue` /
# DequeueIterator) frees up to max_batch_size slots of a bounded queue but wakes
# up only ONE of the producers blocked in put() (a single
# `self._enqueue_lock.notify()` after the loop). Every other blocked producer
# keeps sleeping although the buffer has room, until the consumer happens to
# call the queue again. With a timeout configured that producer raises a
# spurious 'Enqueue timeout' while a slot was free during (almost) its whole
# wait, and the failure then kills the whole stream: the consumer gets a
# TimeoutError instead of the remaining elements and the clean end of stream.
#
# Scenario (deterministic, no delay injected into the library): queue of size 2,
# two producers with two elements each. Both block on the full buffer with their
# second element. The consumer drains the two queued elements with ONE
# get_batch() and then works on them for longer than the timeout. The two free
# slots are enough for the two pending elements, so nobody is starved.
import sys
import threading
import time

from absl import logging
from ml_metrics._src.utils import iter_utils

logging.set_verbosity(logging.FATAL)

TIMEOUT = 1.5


def main():
  q = iter_utils.IteratorQueue(2, timeout=TIMEOUT, max_enqueuer=2, name='q')
  outcome = {}
  t0 = time.time()

  first_put = {'a': threading.Event(), 'b': threading.Event()}

  def producer(name):
    other = 'b' if name == 'a' else 'a'

    def gen():
      yield f'{name}0'
      # Only to make the start deterministic: the buffer holds a0 and b0 before
      # anybody offers its second element.
      first_put[name].set()
      first_put[other].wait()
      yield f'{name}1'
      return f'ret_{name}'

    try:
      q.enqueue_from_iterator(gen())
      outcome[name] = 'finished'
    except Exception as e:  # pylint: disable=broad-exception-caught
      outcome[name] = f'{type(e).__name__}: {e} (after {time.time()-t0:.2f}s)'

  threads = [threading.Thread(target=producer, args=(n,)) for n in 'ab']
  for t in threads:
    t.start()
  # Both producers are now blocked in put() with their second element.
  time.sleep(0.3)
  assert q._queue.qsize() == 2
  first = q.get_batch()  # frees BOTH slots at t=0.3s
  print(f't={time.time()-t0:.2f}s consumer dequeued {first}, buffer is empty')
  time.sleep(0.3)
  free_after_drain = 2 - q._queue.qsize()
  print(
      f't={time.time()-t0:.2f}s buffer holds {q._queue.qsize()}/2 elements,'
      f' free slots: {free_after_drain}; producers still blocked in put():'
      f' {sum(t.is_alive() for t in threads)}'
  )
  # The consumer is busy with its batch for longer than the timeout.
  time.sleep(TIMEOUT + 0.5)
  rest, end = [], None
  try:
    while True:
      rest.extend(q.get_batch())
  except StopIteration as e:
    end = f'clean end of stream, returned={sorted(e.args)}'
  except Exception as e:  # pylint: disable=broad-exception-caught
    end = f'{type(e).__name__}: {e}'
  for t in threads:
    t.join(10)
  print('producers:', outcome)
  print('consumer got:', first + rest, '->', end)
  ok = (
      sorted(first + rest) == ['a0', 'a1', 'b0', 'b1']
      and end is not None
      and end.startswith('clean')
      and all(v == 'finished' for v in outcome.values())
  )
  if ok:
    print('OK: both blocked producers were woken up by the drain')
    return 0
  print(
      'DEFECT: get_batch() freed 2 slots but woke up one producer only; the'
      ' other one timed out in put() although the buffer had a free slot'
  )
  return 1


if __name__ == '__main__':
  sys.exit(main())
