# Property C05: "If any producer's iterator raises, every consumer observes that
# exception (never a clean end-of-stream and never an indefinite wait) ... and
# all other producers stop and return."
#
# IteratorQueue.enqueue_from_iterator (and the async twin) DECORATE the failure
# before they RECORD it:
#     e.add_note(...); logging.exception(...); self._exception = e;
#     self._stop_enqueue()
# BaseException.add_note() stores `__notes__` with a normal setattr, which fails
# for every exception type that forbids attribute assignment, e.g. a
# @dataclass(frozen=True) / attrs-frozen exception (or one whose __notes__ is
# not a list). The secondary error leaves enqueue_from_iterator before the
# failure is recorded and before the enqueuer is un-registered: the consumers
# are never woken up and wait for ever (no timeout configured), the other
# producers keep producing.
#
# Case 2 (same cause: an enqueuer that dies without being recorded): the
# handlers are `except Exception`, a source raising a BaseException such as
# asyncio.CancelledError (a sync source that drives an event loop whose task got
# cancelled) kills the enqueuer thread silently, same hang.
import asyncio
import dataclasses
import sys
import threading
import time

from absl import logging
from ml_metrics._src.utils import iter_utils

logging.set_verbosity(logging.FATAL)


@dataclasses.dataclass(frozen=True)
class QuotaError(Exception):
  code: int = 0


def run(case, exc, with_other=True):
  q = iter_utils.IteratorQueue(
      2, max_enqueuer=2 if with_other else 1, name=case
  )
  other_stopped = threading.Event()

  def failing():
    yield 'f0'
    raise exc

  def other():
    try:
      i = 0
      while True:
        yield f'o{i}'
        i += 1
    finally:
      other_stopped.set()

  producer_end = {}

  def produce(name, it):
    try:
      q.enqueue_from_iterator(it)
      producer_end[name] = 'returned'
    except BaseException as e:  # pylint: disable=broad-exception-caught
      producer_end[name] = f'raised {type(e).__name__}: {e}'

  consumer_end = []
  got = []

  def consume():
    try:
      while len(got) < 10**4:
        got.append(q.get())
      consumer_end.append('NO FAILURE after 10000 elements')
    except BaseException as e:  # pylint: disable=broad-exception-caught
      consumer_end.append(f'{type(e).__name__}: {e!r}')

  ts = [
      threading.Thread(target=produce, args=('failing', failing()), daemon=True),
      threading.Thread(target=consume, daemon=True),
  ]
  if with_other:
    ts.insert(
        1,
        threading.Thread(
            target=produce, args=('other', other()), daemon=True
        ),
    )
  for t in ts:
    t.start()
  ts[0].join(5)
  time.sleep(0.5)
  ts[-1].join(5)
  print(f'[{case}] failing producer: {producer_end.get("failing")}')
  print(
      f'[{case}] queue.exception={q.exception!r},'
      f' enqueue_done={q.enqueue_done}'
  )
  observed = bool(consumer_end) and type(exc).__name__ in consumer_end[0]
  print(
      f'[{case}] consumer: '
      + (consumer_end[0] if consumer_end else 'STILL BLOCKED/RUNNING')
      + f' (received {len(got)} elements)'
  )
  q.maybe_stop()  # clean up the demo threads
  return observed


def main():
  bad = 0
  if not run('control ValueError', ValueError('boom')):
    print('unexpected: control case did not propagate')
  if not run('frozen dataclass exception', QuotaError(7)):
    bad = 1
    print(
        'DEFECT: the failure of the producer was never recorded: consumers do'
        ' not observe it, the other producer is not stopped'
    )
  if not run('frozen dataclass exception, single producer', QuotaError(7), False):
    bad = 1
    print('DEFECT: the only producer failed, the consumer waits for ever')
  if not run('BaseException (asyncio.CancelledError)', asyncio.CancelledError()):
    print('(same cause, BaseException: enqueuer died unrecorded)')
  return bad


if __name__ == '__main__':
  sys.exit(main())
