# Property C05 / C13: stopping a stream early must unblock / release the producers.
# The sync DequeueIterator(num_steps=n) calls queue.maybe_stop() once n elements were
# taken; its async twin _AsyncDequeueIterator (async_dequeue_as_iterator(num_steps=n),
# the only early-stop API of the async side) just raises StopAsyncIteration and never
# stops the queue: the producer thread stays blocked in put() on the bounded buffer
# for ever (or fails with an enqueue TimeoutError when a timeout is configured).
import asyncio
import sys
import threading

from absl import logging

logging.set_verbosity(logging.FATAL)
from ml_metrics._src.utils import iter_utils  # pylint: disable=g-import-not-at-top


def run(make_queue, consume):
  q = make_queue()
  t = threading.Thread(
      target=q.enqueue_from_iterator, args=(range(1000),), daemon=True
  )
  t.start()
  got = consume(q)
  t.join(1.5)
  alive = t.is_alive()
  done = q.enqueue_done
  q.maybe_stop()
  t.join(2)
  return got, alive, done


async def atake(q):
  return [x async for x in q.async_dequeue_as_iterator(num_steps=3)]


sync = run(
    lambda: iter_utils.IteratorQueue(1),
    lambda q: list(q.dequeue_as_iterator(num_steps=3)),
)
print('sync : got=%s producer_blocked=%s enqueue_done=%s' % sync)
asyn = run(
    lambda: iter_utils.AsyncIteratorQueue(1),
    lambda q: asyncio.run(atake(q)),
)
print('async: got=%s producer_blocked=%s enqueue_done=%s' % asyn)
if asyn[1] or not asyn[2]:
  print('DEFECT: async early stop leaves the producer blocked on the full queue')
  sys.exit(1)
sys.exit(0)
