# Property C05: a failing producer must never leave the consumers waiting forever.
# AsyncIteratorQueue.async_enqueue_from_iterator() registers itself with
# _start_enqueue() and only un-registers in `except StopAsyncIteration` /
# `except Exception`. asyncio.CancelledError (what `await anext(iterator)` raises when
# the enqueue task is cancelled, e.g. a worker is dropped) is a BaseException: the
# enqueuer is never recorded as stopped, enqueue_done stays False for ever and every
# consumer blocks (or times out) instead of getting the end of the stream / an error.
import asyncio
import sys

from absl import logging

logging.set_verbosity(logging.FATAL)
from ml_metrics._src.utils import iter_utils  # pylint: disable=g-import-not-at-top


async def main():
  q = iter_utils.AsyncIteratorQueue(0)

  async def src():
    yield 1
    await asyncio.sleep(100)
    yield 2

  task = asyncio.create_task(q.async_enqueue_from_iterator(src()))
  await asyncio.sleep(0.2)
  task.cancel()
  try:
    await task
  except asyncio.CancelledError:
    pass
  print(f'producer cancelled: enqueue_done={q.enqueue_done} exception={q.exception!r}')
  q.timeout = 1.0  # Only so that this demonstration terminates.
  outcome = []
  try:
    while True:
      outcome.append(await q.async_get_batch())
  except StopAsyncIteration:
    outcome.append('end-of-stream')
  except TimeoutError as e:
    outcome.append(f'TimeoutError({e})')
  except Exception as e:  # pylint: disable=broad-exception-caught
    outcome.append(repr(e))
  print('consumer saw:', outcome)
  return q.enqueue_done


done = asyncio.run(main())
if not done:
  print('DEFECT: the cancelled enqueuer is still counted as running, consumers starve')
  sys.exit(1)
sys.exit(0)
