# Property C04 (exactly once) / C05 (a starved get raises a timeout error).
# get_batch(k, block=True) on a queue with a timeout: when fewer than k elements
# arrive before the timeout, TimeoutError is raised and the elements that were already
# taken out of the buffer (local `result`) are thrown away. A timeout is a retriable
# condition (the queue is neither failed nor stopped), but the consumer that retries
# never sees those elements again: the stream ends cleanly with elements missing.
import sys
import threading
import time

from absl import logging

logging.set_verbosity(logging.FATAL)
from ml_metrics._src.utils import iter_utils  # pylint: disable=g-import-not-at-top

q = iter_utils.IteratorQueue(0, timeout=0.3)


def gen():
  yield 0
  yield 1
  time.sleep(1.0)  # Slower than the timeout.
  yield 2
  yield 3


t = threading.Thread(target=q.enqueue_from_iterator, args=(gen(),), daemon=True)
t.start()
got, timeouts = [], 0
while True:
  try:
    got += q.get_batch(3, block=True)
  except TimeoutError:
    timeouts += 1
    continue
  except StopIteration:
    break
t.join(5)
print(f'received={got} timeouts={timeouts} enqueued={q.progress.cnt} q.exception={q.exception!r}')
if got != [0, 1, 2, 3]:
  print('DEFECT: elements dequeued before the TimeoutError were dropped')
  sys.exit(1)
sys.exit(0)
