# Property C05 / C04: "with a timeout configured a starved put raises a timeout error
# instead of blocking" and every produced element is delivered exactly once.
# With ignore_error=True the try block of enqueue_from_iterator() covers put() as well
# as next(iterator): the TimeoutError of a starved put() is swallowed by the
# ignore_error branch, the element in hand is silently dropped and the enqueuer goes
# on with the next element. The consumer then sees a clean end-of-stream with
# elements missing and no exception anywhere.
import sys
import threading
import time

from absl import logging

logging.set_verbosity(logging.FATAL)
from ml_metrics._src.utils import iter_utils  # pylint: disable=g-import-not-at-top

q = iter_utils.IteratorQueue(1, timeout=0.2, ignore_error=True)
raised = []


def produce():
  try:
    q.enqueue_from_iterator(range(6))
  except Exception as e:  # pylint: disable=broad-exception-caught
    raised.append(e)


t = threading.Thread(target=produce, daemon=True)
t.start()
time.sleep(0.75)  # A slow consumer: the producer's put() times out meanwhile.
try:
  got, end = list(q), 'StopIteration'
except Exception as e:  # pylint: disable=broad-exception-caught
  got, end = None, repr(e)
t.join(5)
print(f'received={got} end={end} producer_raised={raised} q.exception={q.exception!r}')
if got is not None and got != list(range(6)) and not raised and q.exception is None:
  print('DEFECT: elements dropped silently, no TimeoutError was ever reported')
  sys.exit(1)
sys.exit(0)
