# Property C04 (non-blocking consumers: every element exactly once, always terminate).
# IteratorQueue.get_nowait() is the public non-blocking dequeue, but it only works when
# it is called from get()/get_batch(), i.e. with _dequeue_lock held:
#  (a) at the end of the stream it calls _set_exhausted() -> _dequeue_lock.notify_all()
#      on an un-acquired Condition: RuntimeError instead of the last element /
#      StopIteration, and the element it had already taken out of the buffer is lost;
#  (b) it never notifies _enqueue_lock, so a producer blocked on a full bounded buffer
#      is never woken: producer and polling consumer are stuck forever.
import queue
import sys
import threading
import time

from absl import logging

logging.set_verbosity(logging.FATAL)
from ml_metrics._src.utils import iter_utils  # pylint: disable=g-import-not-at-top

bad = False

# (a) single thread, everything already enqueued.
q = iter_utils.IteratorQueue(2)


def gen():
  yield 1
  yield 2
  return 'ret'


q.enqueue_from_iterator(gen())
got, end = [], None
for _ in range(5):
  try:
    got.append(q.get_nowait())
  except StopIteration as e:
    end = e
    break
  except Exception as e:  # pylint: disable=broad-exception-caught
    end = e
    break
print(f'(a) received={got} end={type(end).__name__}({end})')
if got != [1, 2] or not isinstance(end, StopIteration):
  print('(a) DEFECT: expected [1, 2] then StopIteration("ret")')
  bad = True

# (b) polling consumer against a producer blocked on a full buffer.
q = iter_utils.IteratorQueue(2)
t = threading.Thread(
    target=q.enqueue_from_iterator, args=(range(6),), daemon=True
)
t.start()
time.sleep(0.3)  # The producer now waits in put() on the full buffer.
got = []
deadline = time.time() + 3
while time.time() < deadline:
  try:
    got.append(q.get_nowait())
  except (queue.Empty, RuntimeError):
    time.sleep(0.01)
  except StopIteration:
    break
t.join(0.5)
print(f'(b) received={got} producer_still_blocked={t.is_alive()}')
if t.is_alive() or sorted(got) != list(range(6)):
  print('(b) DEFECT: the blocked producer is never notified by get_nowait()')
  bad = True
q.maybe_stop()
sys.exit(1 if bad else 0)
