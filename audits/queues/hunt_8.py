"""C05 violation: on a queue created with ignore_error=True a recorded failure never reaches the
iterating / batching consumers: get_batch() returns [] forever and the queue's own iterators
crash with "IndexError: pop from an empty deque".

C05: "If any producer's iterator raises, every consumer observes that exception (never a clean
end-of-stream and never an indefinite wait)"; C04: every consumer terminates with end-of-stream.

How a failure gets recorded on an ignore_error queue:
  * AsyncIteratorQueue.async_enqueue_from_iterator(): with ignore_error=True it still stores the
    producer's exception (`self._exception = e; self._stop_enqueue(); return`), or
  * maybe_stop(exc) with a real exception (external failure notification).
After that get_nowait() raises the stored exception, and get_batch() handles it with
`if ... (not exhausted and self.ignore_error): break` (iter_utils.py ~line 670) and returns
whatever it has - i.e. an EMPTY list once the buffer is drained, on every call, forever: neither
the exception nor StopIteration is ever raised, so a `while True: q.get_batch()` consumer spins
forever.  DequeueIterator.__next__ / _AsyncDequeueIterator.__anext__ do
`self._cache.extend(get_batch()); return self._cache.popleft()` and blow up with IndexError.
(q.get() on the same queue does raise the stored exception, so the two dequeue APIs disagree.)
"""
import asyncio
import sys
from absl import logging
logging.set_verbosity(logging.FATAL)
from ml_metrics._src.utils import iter_utils

bad = False


# 1. async producer fails on an ignore_error queue, consumer uses `async for`.
async def failing():
  yield 1
  raise ValueError('boom')


async def async_case():
  q = iter_utils.AsyncIteratorQueue(0, ignore_error=True, name='async')
  await q.async_enqueue_from_iterator(failing())
  out = []
  try:
    async for x in q:
      out.append(x)
    return out, 'clean end-of-stream'
  except Exception as e:  # pylint: disable=broad-exception-caught
    return out, f'raised {e!r}'


out, end = asyncio.run(async_case())
print(f'async for over failed ignore_error queue: received {out}, {end}')
bad |= 'IndexError' in end

# 2. sync queue, failure injected with maybe_stop(exc), consumer iterates / polls batches.
q = iter_utils.IteratorQueue(0, ignore_error=True, max_enqueuer=1, name='sync')
q.put(1)
q.maybe_stop(ValueError('upstream died'))
batches = [q.get_batch() for _ in range(5)]
print(f'get_batch() x5 after failure: {batches}  exhausted={q.exhausted} '
      f'exception={q.exception!r}')
bad |= batches[1:] == [[]] * 4  # an endless stream of empty batches, never an end.
try:
  rest = list(q)
  end = f'clean end-of-stream {rest}'
except Exception as e:  # pylint: disable=broad-exception-caught
  end = f'raised {e!r}'
print(f'for x in q: {end}')
bad |= 'IndexError' in end
try:
  q.get()
  end = 'returned'
except Exception as e:  # pylint: disable=broad-exception-caught
  end = f'raised {e!r}'
print(f'q.get(): {end}')

print('DEFECT PRESENT: failure is neither raised nor turned into end-of-stream' if bad else 'ok')
sys.exit(1 if bad else 0)
