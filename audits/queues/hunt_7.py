"""C05 violation: a producer whose iterable fails while being opened (iter(source) raises) leaves
every consumer waiting forever.

C05: "If any producer's iterator raises, every consumer observes that exception (never a clean
end-of-stream and never an indefinite wait)".

enqueue_from_iterator() does `iterator = iter(iterator)` and `self._start_enqueue()` BEFORE its
try block (iter_utils.py ~lines 791-792).  piter_multiplex()/piter() accept Iterables and submit
enqueue_from_iterator to a thread pool, so a data source whose __iter__ raises (a lazily opened
file/dataset: "Iterable" is all the signature asks for) fails inside the pool thread, the
exception is swallowed by the Future, and the queue - created with max_enqueuer=N - keeps waiting
for an enqueuer that will never start or stop.  The consumer receives the other producers'
elements and then blocks forever: neither the exception nor an end-of-stream is ever delivered.
"""
import os
import sys
import threading
from concurrent import futures
from absl import logging
logging.set_verbosity(logging.FATAL)
from ml_metrics._src.utils import iter_utils


class LazyFile:
  """An Iterable that opens its resource in __iter__."""

  def __iter__(self):
    raise OSError('cannot open shard-00001')


pool = futures.ThreadPoolExecutor(4)
q = iter_utils.piter_multiplex([LazyFile(), iter([1, 2, 3])], pool)
received, end = [], []


def consume():
  try:
    for x in q:
      received.append(x)
    end.append('clean end-of-stream')
  except Exception as e:  # pylint: disable=broad-exception-caught
    end.append(f'raised {e!r}')


t = threading.Thread(target=consume, daemon=True)
t.start()
t.join(3)
if t.is_alive():
  print(f'received {received}; consumer STILL BLOCKED after 3s '
        f'(enqueue_done={q.enqueue_done}, exception={q.exception})')
  print('DEFECT PRESENT: failed producer is never reported, consumer waits forever')
  sys.stdout.flush()
  os._exit(1)
print(f'received {received}; {end[0]}')
ok = end and end[0].startswith('raised OSError')
print('ok' if ok else 'DEFECT PRESENT: consumer did not observe the failure')
sys.stdout.flush()
os._exit(0 if ok else 1)
