"""C13 (parallel evaluation must equal the sequential evaluation): iterate_fn(multithread=True)
returns the per-row results in thread COMPLETION order, not in input order.

C13: "Mapping or iterating with any degree of parallelism ... produces exactly the ... values the
sequential evaluation produces".  iterate_fn turns a row function into a column/batch function:
output row i must belong to input row i (the result is assigned back next to the inputs by
TreeTransform.apply/assign).  The multithreaded branch collects results with
`list(x.result() for x in futures.as_completed(states))` (iter_utils.py ~line 1189), and
as_completed yields futures as they finish.  As soon as rows take different time, the output
batch is a permutation of the sequential one, i.e. values are attached to the wrong rows (the
multiset is the same, the batch value is not).  The existing unit test feeds identical rows, so it
cannot notice.
"""
import sys
import time
from absl import logging
logging.set_verbosity(logging.FATAL)
from ml_metrics._src.utils import iter_utils


def slow_for_small(x):
  time.sleep(0.05 * (4 - x))  # row 0 is the slowest, row 4 the fastest.
  return x * 10


def two_outputs(x):
  time.sleep(0.05 * (4 - x))
  return x, str(x)


rows = [0, 1, 2, 3, 4]
seq = iter_utils.iterate_fn(slow_for_small)(rows)
par = iter_utils.iterate_fn(slow_for_small, multithread=True)(rows)
print('sequential :', seq)
print('multithread:', par)
seq2 = iter_utils.iterate_fn(two_outputs)(rows)
par2 = iter_utils.iterate_fn(two_outputs, multithread=True)(rows)
print('sequential  (tuple output):', seq2)
print('multithread (tuple output):', par2)
bad = list(seq) != list(par) or seq2 != par2
print('DEFECT PRESENT: parallel result is a permutation of the sequential result' if bad else 'ok')
sys.exit(1 if bad else 0)
