"""C04/C13 violation: piter() deadlocks when there are at least as many input iterators as
threads in the pool it creates for itself.

Property C13: iterating "with any degree of parallelism over one or several input iterators
produces exactly the multiset of values the sequential evaluation produces"; C04: "No interleaving
deadlocks or leaves a consumer or producer blocked forever" (quantified over all numbers of input
iterators / producer counts / buffer sizes).

piter(iterator_fn, input_iterators=[...N iterators...], max_parallism=p) with the default
thread_pool=None:
  1. creates `ThreadPoolExecutor(thread_name_prefix='piter')` with the DEFAULT max_workers
     (min(32, cpu_count + 4)),
  2. submits one enqueue_from_iterator task per input iterator into a BOUNDED intermediate queue
     (buffer_size = buffer_size or max_parallism),
  3. only then submits the p worker tasks that drain that intermediate queue - to the same pool.
With N >= max_workers the N input tasks occupy every pool thread, fill the bounded queue and block
in put(); the worker tasks that would drain it sit in the executor's work queue forever.  The
consumer of the result never receives a single element.  (iter_utils.py piter(), lines ~1089-1118.)
The library sizes this pool itself, so no caller misconfiguration is involved; the same happens
with a user pool that is merely smaller than N + 1.
"""
import collections
import os
import sys
import threading
from concurrent import futures
from absl import logging
logging.set_verbosity(logging.FATAL)
from ml_metrics._src.utils import iter_utils

default_workers = futures.ThreadPoolExecutor()._max_workers  # what piter will get.
num_inputs = default_workers  # N == pool size is already enough.
per_input = 5


def source(i):
  for j in range(per_input):
    yield (i, j)


def identity(it):
  yield from it


expected = collections.Counter(
    (i, j) for i in range(num_inputs) for j in range(per_input)
)
res, end = [], []


def consume():
  try:
    q = iter_utils.piter(
        identity,
        input_iterators=[source(i) for i in range(num_inputs)],
        max_parallism=2,
    )
    for x in q:
      res.append(x)
    end.append('done')
  except BaseException as e:  # pylint: disable=broad-exception-caught
    end.append(repr(e))


t = threading.Thread(target=consume, daemon=True)
t.start()
t.join(5)
print(f'default pool size={default_workers}, input iterators={num_inputs}, '
      f'{per_input} elements each')
blocked = [th.name for th in threading.enumerate() if th.name.startswith('piter')]
if t.is_alive():
  print(f'consumer STILL BLOCKED after 5s: received {len(res)} of '
        f'{sum(expected.values())} elements; {len(blocked)} pool threads alive')
  print('DEFECT PRESENT: deadlock (input enqueuers starve the worker tasks)')
  sys.stdout.flush()
  os._exit(1)
ok = collections.Counter(res) == expected and end == ['done']
print('received', len(res), 'elements, end', end)
print('ok' if ok else 'DEFECT PRESENT: wrong result')
sys.stdout.flush()
os._exit(0 if ok else 1)
