"""C05 violation: a producer whose iterator raises queue.Empty hangs every consumer forever.

Property C05: "If any producer's iterator raises, every consumer observes that exception (never a
clean end-of-stream and never an indefinite wait)".

A very ordinary data source - a generator that reads an upstream queue.Queue with a timeout -
raises queue.Empty when the upstream is starved.  enqueue_from_iterator() records it as the
queue's exception, and get_nowait() re-raises it with `raise self.exception or ...` from inside
its own `except (queue.Empty, asyncio.QueueEmpty)` clause.  The callers cannot tell this
re-raised producer failure from "the buffer is momentarily empty":
  * get() catches it in `except (queue.Empty, ...)` and goes to `_dequeue_lock.wait()`; all
    notifications have already been sent, so it sleeps forever (timeout=None, the default used by
    piter_multiplex/MultiplexIterator).
  * get_batch() (used by every DequeueIterator / MultiplexIterator) catches it, sees
    `enqueue_done`, `continue`s, gets the same exception again ... a busy loop that never returns
    and holds _dequeue_lock (and keeps growing the exception's traceback).
The same happens with asyncio.QueueEmpty.  Cause: iter_utils.py get_nowait() lines ~609-616
raising the stored producer exception through the Empty handlers of get()/get_batch().
"""
import os
import queue
import sys
import threading
from absl import logging
logging.set_verbosity(logging.FATAL)
from ml_metrics._src.utils import iter_utils


def starved_source():
  upstream = queue.Queue()
  upstream.put(1)
  upstream.put(2)
  while True:
    # Raises queue.Empty once the upstream has nothing more within the timeout.
    yield upstream.get(timeout=0.05)


def consume(kind, res, end):
  try:
    if kind == 'MultiplexIterator':
      it = iter_utils.MultiplexIterator(
          data_sources=[starved_source()], parallism=1, name='m'
      )
      for x in it:
        res.append(x)
    else:
      q = iter_utils.IteratorQueue(0, max_enqueuer=1, name='q')

      def produce():
        try:
          q.enqueue_from_iterator(starved_source())
        except queue.Empty:
          pass  # the producer thread itself does see the error.

      threading.Thread(target=produce, daemon=True).start()
      if kind == 'get':
        while True:
          res.append(q.get())
      else:
        while True:
          res.extend(q.get_batch())
    end.append('clean end-of-stream')
  except StopIteration:
    end.append('clean end-of-stream')
  except BaseException as e:  # pylint: disable=broad-exception-caught
    end.append(f'raised {type(e).__name__}')


bad = False
for kind in ('get', 'get_batch', 'MultiplexIterator'):
  res, end = [], []
  t = threading.Thread(target=consume, args=(kind, res, end), daemon=True)
  t.start()
  t.join(3)
  hung = t.is_alive()
  print(f'{kind:18s}: received {res}, outcome: '
        f'{"STILL BLOCKED after 3s" if hung else end[0]}')
  if hung or end != ['raised Empty']:
    bad = True
print('DEFECT PRESENT: consumers never observe the producer failure' if bad else 'ok')
sys.stdout.flush()
os._exit(1 if bad else 0)  # hung threads (one is busy looping) cannot be joined.
