"""C05 violation: async producers (AsyncIteratorQueue.async_enqueue_from_iterator) ignore both a
stop request and another producer's failure; they keep pulling their source forever.

C05: "If any producer's iterator raises ... all other producers stop and return.  A stop request
unblocks every blocked producer and consumer."

The synchronous enqueue_from_iterator loops `while not self.enqueue_done`, so it returns as soon
as the queue is stopped/failed.  The async twin loops `while True` (iter_utils.py ~line 927): after
maybe_stop() or after another producer failed, put() silently drops every value (its own loop is
`while not self.enqueue_done`), and the coroutine keeps calling anext() on its source and
discarding the values until the source ends by itself - for an unbounded source, never.  The
producer task therefore never returns (orchestrate awaits exactly these tasks), and a live source
keeps being consumed into the void.
"""
import asyncio
import sys
from absl import logging
logging.set_verbosity(logging.FATAL)
from ml_metrics._src.utils import iter_utils


async def run(kind):
  pulled = []

  async def endless():
    i = 0
    while True:
      pulled.append(i)
      yield i
      i += 1
      await asyncio.sleep(0.001)

  async def failing():
    yield 'x'
    await asyncio.sleep(0.02)
    raise ValueError('boom')

  q = iter_utils.AsyncIteratorQueue(2, name=kind)
  survivor = asyncio.ensure_future(q.async_enqueue_from_iterator(endless()))
  if kind == 'stop':
    await asyncio.sleep(0.05)
    q.maybe_stop()
  else:
    other = asyncio.ensure_future(q.async_enqueue_from_iterator(failing()))
    try:
      await other
    except ValueError:
      pass
  at_event = len(pulled)
  done, _ = await asyncio.wait([survivor], timeout=1.0)
  after = len(pulled)
  print(f'[{kind}] enqueue_done={q.enqueue_done}; source pulled {at_event} values before the '
        f'event and {after - at_event} more in the following second; producer returned: '
        f'{bool(done)}')
  survivor.cancel()
  return not done


bad = False
for kind in ('stop', 'other-producer-fails'):
  bad |= asyncio.run(run(kind))
print('DEFECT PRESENT: async producer keeps running after stop/failure' if bad else 'ok')
sys.exit(1 if bad else 0)
