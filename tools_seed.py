"""Applies a seeded change to /repo, runs checks, and always undoes it.

usage: tools_seed.py <seeded/<id> dir> [ID ...]   (default IDs: meta.json "checks" or the property)
"""
import json, os, subprocess, sys

def main():
  d = os.path.abspath(sys.argv[1])
  meta = json.load(open(os.path.join(d, 'meta.json'))) if os.path.exists(os.path.join(d, 'meta.json')) else {}
  ids = sys.argv[2:] or meta.get('checks') or [meta.get('property')]
  st = subprocess.run(['git', '-C', '/repo', 'status', '--porcelain', '--untracked-files=no'], capture_output=True, text=True).stdout
  if st.strip():
    print('refusing: /repo has uncommitted tracked changes'); return 2
  r = subprocess.run(['git', '-C', '/repo', 'apply', os.path.join(d, 'patch.diff')], capture_output=True, text=True)
  if r.returncode:
    print('patch does not apply:', r.stderr); return 2
  out = {}
  try:
    for pid in ids:
      tier = os.environ.get('SEED_TIER', 'quick')
      r = subprocess.run(['./check', pid, '--tier', tier, '--no-evidence'], cwd='/verif', capture_output=True, text=True)
      lines = [l for l in r.stdout.splitlines() if 'new-violation-class' in l or l.startswith(pid + ' ') or l.startswith('INCONCLUSIVE')]
      print(f'[{pid}] exit={r.returncode}'); print('\n'.join(lines[-8:])[:2000])
      out[pid] = r.returncode
  finally:
    subprocess.run(['git', '-C', '/repo', 'checkout', '--', '.'], check=True)
  print('RESULT', json.dumps(out))
  return 0

if __name__ == '__main__':
  sys.exit(main())
