"""Runs checks against a seeded change.

The change is applied to a scratch git worktree of /repo's HEAD (outside /repo and /verif) and
the checks run with VERIF_REPO pointing at it, so /repo itself - and anything running against
it in the background - is never touched; the worktree is removed afterwards. This is
equivalent to `git -C /repo apply patch.diff; ./check ...; git -C /repo checkout -- .`.

usage: tools_seed.py <seeded/<id> dir> [ID ...]   (default: the seeded property's own check)
       SEED_TIER=thorough to use the thorough tier.
"""
import json, os, shutil, subprocess, sys, tempfile

def main():
  d = os.path.abspath(sys.argv[1])
  meta = json.load(open(os.path.join(d, 'meta.json'))) if os.path.exists(os.path.join(d, 'meta.json')) else {}
  ids = sys.argv[2:] or meta.get('checks') or [meta.get('property')]
  tmp = tempfile.mkdtemp(prefix='seedrun-')
  w = os.path.join(tmp, 'w')
  subprocess.run(['git', '-C', '/repo', 'worktree', 'add', '-q', '--detach', w, 'HEAD'], check=True)
  out = {}
  try:
    patch = os.path.join(d, 'patch.diff')
    if os.path.exists(os.path.join(d, 'patch_rebased.diff')):
      patch = os.path.join(d, 'patch_rebased.diff')   # the same change on top of later fixes
    r = subprocess.run(['git', '-C', w, 'apply', patch], capture_output=True, text=True)
    if r.returncode != 0:
      r = subprocess.run(['git', '-C', w, 'apply', '--3way', patch], capture_output=True, text=True)
    if r.returncode:
      print('patch does not apply:', r.stderr); return 2
    env = dict(os.environ, VERIF_REPO=w)
    for pid in ids:
      tier = os.environ.get('SEED_TIER', 'quick')
      r = subprocess.run(['./check', pid, '--tier', tier, '--no-evidence'], cwd='/verif', env=env, capture_output=True, text=True)
      lines = [l for l in r.stdout.splitlines() if 'new-violation-class' in l or l.startswith(pid + ' ') or l.startswith('INCONCLUSIVE')]
      print(f'[{pid}] exit={r.returncode}'); print('\n'.join(lines[-8:])[:2000])
      out[pid] = r.returncode
  finally:
    subprocess.run(['git', '-C', '/repo', 'worktree', 'remove', '--force', w])
    shutil.rmtree(tmp, ignore_errors=True)
  print('RESULT', json.dumps(out))
  return 0

if __name__ == '__main__':
  sys.exit(main())
