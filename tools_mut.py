"""Mutation helper: apply a textual break to a scratch copy of /repo and run checks.

usage: tools_mut.py <file relative to repo> <old> <new> <ID> [<ID> ...]
Prints the verdict line of every check; removes the copy afterwards.
"""
import os, shutil, subprocess, sys, tempfile

def main():
  rel, old, new, *ids = sys.argv[1:]
  d = tempfile.mkdtemp(prefix='mut-')
  try:
    shutil.copytree('/repo/ml_metrics', os.path.join(d, 'ml_metrics'))
    p = os.path.join(d, rel)
    s = open(p).read()
    if s.count(old) != 1:
      print(f'pattern occurs {s.count(old)} times'); return 2
    open(p, 'w').write(s.replace(old, new))
    env = dict(os.environ, VERIF_REPO=d)
    for pid in ids:
      r = subprocess.run(['./check', pid, '--tier', 'quick', '--no-evidence'], cwd='/verif', env=env,
                         capture_output=True, text=True)
      lines = [l for l in r.stdout.splitlines() if l.startswith(pid) or 'new-violation-class' in l or l.startswith('INCONCLUSIVE')]
      print(f'[{pid}] exit={r.returncode}'); print('\n'.join(lines[-6:])[:1500])
  finally:
    shutil.rmtree(d, ignore_errors=True)

if __name__ == '__main__':
  sys.exit(main())
